//! Native demonstration runner: feeds ST programs through the REAL pipeline (parser, HIR
//! diagnostics, lowering, Runtime) and prints what happens. Used to confirm findings natively.
//!   verif-native run <file.st> [cycles]   -> prints compile verdict, per-cycle errors, all globals
use trust_runtime::harness::TestHarness;

fn main() {
    let args: Vec<String> = std::env::args().collect();
    if args.len() < 3 || args[1] != "run" {
        eprintln!("usage: verif-native run <file.st> [cycles]");
        std::process::exit(2);
    }
    let src = std::fs::read_to_string(&args[2]).expect("read source");
    let cycles: u32 = args.get(3).and_then(|s| s.parse().ok()).unwrap_or(1);
    let mut h = match TestHarness::from_source(&src) {
        Ok(h) => h,
        Err(e) => {
            println!("COMPILE: rejected: {e}");
            return;
        }
    };
    println!("COMPILE: accepted");
    for i in 0..cycles {
        let r = std::panic::catch_unwind(std::panic::AssertUnwindSafe(|| h.cycle()));
        match r {
            Ok(c) => println!("CYCLE {i}: errors={:?}", c.errors),
            Err(_) => { println!("CYCLE {i}: PANIC"); break; }
        }
    }
    let rt = h.runtime();
    for (name, value) in rt.storage().globals() {
        println!("GLOBAL {name} = {value:?}");
    }
    for (id, inst) in rt.storage().instances() {
        for (name, value) in inst.variables.iter() {
            println!("INSTANCE {:?} {} {name} = {value:?}", id, inst.type_name);
        }
    }
    println!("FRAMES {}", rt.storage().frames().len());
}
