//! Native demonstration runner: feeds ST programs through the REAL pipeline (parser, HIR
//! diagnostics, lowering, Runtime) and prints what happens. Used to confirm findings natively.
//!   verif-native run <file.st> [cycles]   -> prints compile verdict, per-cycle errors, all globals
use trust_runtime::harness::TestHarness;

/// crash-replay <spec.json>: performs the first `crash` file-system effects of the save routine (and a
/// partial write if the crash falls inside a write) on a temp dir, using the REAL encoder's bytes, then
/// calls the REAL FileRetainStore::load. exit 1 = load() returns neither the old nor the new snapshot.
fn crash_replay(spec_path: &str) -> i32 {
    use trust_runtime::retain::{FileRetainStore, RetainStore};
    use trust_runtime::value::Value;
    use trust_runtime::RetainSnapshot;
    let spec = std::fs::read_to_string(spec_path).expect("spec");
    // minimal JSON picking (no serde in this crate): effects as [["create","P"],...]
    let effects: Vec<Vec<String>> = {
        let start = spec.find("\"effects\"").unwrap();
        let open = spec[start..].find("[[").unwrap() + start;
        let close = spec[open..].find("]]").unwrap() + open + 2;
        spec[open + 1..close - 1]
            .split("],")
            .map(|e| e.trim_matches(|c| c == '[' || c == ']' || c == ' ').split(',').map(|t| t.trim().trim_matches('"').to_string()).collect())
            .collect()
    };
    let num_of = |key: &str| -> usize {
        let i = spec.find(key).unwrap() + key.len();
        spec[i..].trim_start_matches(|c: char| c == '"' || c == ':' || c == ' ').chars().take_while(|c| c.is_ascii_digit()).collect::<String>().parse().unwrap()
    };
    let crash = num_of("\"crash\"");
    let (pn, pd) = (num_of("\"partial_fraction_num\""), num_of("\"partial_fraction_den\"").max(1));
    let dir = std::env::temp_dir().join(format!("verif_crash_{}", std::process::id()));
    let _ = std::fs::remove_dir_all(&dir);
    std::fs::create_dir_all(&dir).unwrap();
    let p = dir.join("retain.bin");
    let t = dir.join("retain.bin.tmp");
    let mut old = RetainSnapshot::default();
    old.insert("a", Value::Int(1));
    let mut new = RetainSnapshot::default();
    new.insert("a", Value::Int(2));
    new.insert("b", Value::LInt(-9));
    FileRetainStore::new(&p).store(&old).expect("store old");
    let p2 = dir.join("new_image.bin");
    FileRetainStore::new(&p2).store(&new).expect("store new");
    let new_bytes = std::fs::read(&p2).unwrap();
    let file_of = |r: &str| if r == "P" { p.clone() } else { t.clone() };
    for (i, e) in effects.iter().enumerate() {
        if i > crash { break; }
        let inside = i == crash;   // the effect during which the process dies (only a write is observable)
        match e[0].as_str() {
            "create" => { if !inside { std::fs::File::create(file_of(&e[1])).unwrap(); } }
            "write" => {
                let n = if inside { new_bytes.len() * pn / pd } else { new_bytes.len() };
                if !inside || n > 0 {
                    use std::io::Write;
                    let mut f = std::fs::OpenOptions::new().write(true).open(file_of(&e[1])).unwrap();
                    f.write_all(&new_bytes[..n]).unwrap();
                }
            }
            "sync" => {}
            "rename" => { if !inside { std::fs::rename(file_of(&e[1]), file_of(&e[2])).unwrap(); } }
            _ => { println!("unknown effect {e:?}"); return 2; }
        }
    }
    let loaded = FileRetainStore::new(&p).load();
    let verdict = match &loaded {
        Ok(s) if *s == old => "old",
        Ok(s) if *s == new => "new",
        Ok(_) => "OTHER",
        Err(_) => "ERROR",
    };
    println!("crash after {crash} effect(s) of {effects:?} (partial {pn}/{pd}): load() = {verdict} {:?}", loaded.as_ref().err());
    let _ = std::fs::remove_dir_all(&dir);
    if verdict == "old" || verdict == "new" { 0 } else { 1 }
}

/// alloc-replay <stbc-string-table|retain-array>: feeds the REAL decoder a tiny input whose count field is
/// 0xFFFFFFFF. Run by the driver in a child process under `ulimit -v`: an allocation failure aborts the process
/// (exit by SIGABRT) = the unbounded allocation reproduces; a clean Err(..) exit 0 = it does not.
fn alloc_replay(which: &str) -> i32 {
    match which {
        "stbc-string-table" => {
            // header (24 bytes) + one section entry (12 bytes) + 4-byte payload: count = 0xFFFFFFFF
            let mut b: Vec<u8> = Vec::new();
            b.extend_from_slice(b"STBC");
            b.extend_from_slice(&1u16.to_le_bytes()); // major
            b.extend_from_slice(&1u16.to_le_bytes()); // minor
            b.extend_from_slice(&0u32.to_le_bytes()); // flags: no CRC
            b.extend_from_slice(&24u16.to_le_bytes()); // header size
            b.extend_from_slice(&1u16.to_le_bytes()); // section count
            b.extend_from_slice(&24u32.to_le_bytes()); // section table offset
            b.extend_from_slice(&0u32.to_le_bytes()); // checksum (unused)
            b.extend_from_slice(&1u16.to_le_bytes()); // section id: string table
            b.extend_from_slice(&0u16.to_le_bytes()); // flags
            b.extend_from_slice(&36u32.to_le_bytes()); // offset
            b.extend_from_slice(&4u32.to_le_bytes()); // length
            b.extend_from_slice(&0xFFFF_FFFFu32.to_le_bytes()); // count
            let r = trust_runtime::bytecode::BytecodeModule::decode(&b);
            println!("decode returned {:?}", r.as_ref().map(|_| "Ok").map_err(|e| e.to_string()));
            0
        }
        "retain-array" => {
            use trust_runtime::retain::{FileRetainStore, RetainStore};
            let dir = std::env::temp_dir().join(format!("verif_alloc_{}", std::process::id()));
            std::fs::create_dir_all(&dir).unwrap();
            let p = dir.join("retain.bin");
            // STRN v1, one entry named "a", value = ARRAY with len = 0, dims = 0xFFFFFFFF
            let mut b: Vec<u8> = Vec::new();
            b.extend_from_slice(b"STRN");
            b.extend_from_slice(&1u16.to_le_bytes());
            b.extend_from_slice(&1u32.to_le_bytes());
            b.extend_from_slice(&1u32.to_le_bytes());
            b.push(b'a');
            b.push(28);
            b.extend_from_slice(&0u32.to_le_bytes());
            b.extend_from_slice(&0xFFFF_FFFFu32.to_le_bytes());
            std::fs::write(&p, &b).unwrap();
            let r = FileRetainStore::new(&p).load();
            println!("load returned {:?}", r.as_ref().map(|_| "Ok").map_err(|e| e.to_string()));
            let _ = std::fs::remove_dir_all(&dir);
            0
        }
        _ => 2,
    }
}

fn main() {
    let args: Vec<String> = std::env::args().collect();
    if args.len() >= 3 && args[1] == "alloc-replay" {
        std::process::exit(alloc_replay(&args[2]));
    }
    if args.len() >= 3 && args[1] == "crash-replay" {
        std::process::exit(crash_replay(&args[2]));
    }
    if args.len() < 3 || args[1] != "run" {
        eprintln!("usage: verif-native run <file.st> [cycles]");
        std::process::exit(2);
    }
    let src = std::fs::read_to_string(&args[2]).expect("read source");
    let cycles: u32 = args.get(3).and_then(|s| s.parse().ok()).unwrap_or(1);
    let mut h = match TestHarness::from_source(&src) {
        Ok(h) => h,
        Err(e) => {
            println!("COMPILE: rejected: {e}");
            return;
        }
    };
    println!("COMPILE: accepted");
    for i in 0..cycles {
        let r = std::panic::catch_unwind(std::panic::AssertUnwindSafe(|| h.cycle()));
        match r {
            Ok(c) => println!("CYCLE {i}: errors={:?}", c.errors),
            Err(_) => { println!("CYCLE {i}: PANIC"); break; }
        }
    }
    let rt = h.runtime();
    for (name, value) in rt.storage().globals() {
        println!("GLOBAL {name} = {value:?}");
    }
    for (id, inst) in rt.storage().instances() {
        for (name, value) in inst.variables.iter() {
            println!("INSTANCE {:?} {} {name} = {value:?}", id, inst.type_name);
        }
    }
    println!("FRAMES {}", rt.storage().frames().len());
}
