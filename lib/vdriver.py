"""Check driver: runs Kani/CBMC harnesses over /repo's current tree, classifies the
solver verdicts, replays counterexamples natively, writes evidence. Stdlib only."""
import argparse
import concurrent.futures as cf
import hashlib
import json
import os
import re
import shutil
import subprocess
import sys
import time

VERIF = os.path.dirname(os.path.dirname(os.path.abspath(__file__)))
REPO = os.environ.get("VERIF_REPO", "/repo")
WORK = os.path.join(VERIF, ".work")
KANI_CRATE = os.path.join(VERIF, "kani")
TARGET = os.path.join(WORK, "kani-target")
PLAYBACK_TARGET = os.path.join(WORK, "playback-target")
LOGS = os.path.join(WORK, "logs")
REPLAY = os.path.join(WORK, "replay")
EVIDENCE = os.path.join(VERIF, "evidence")
KNOWN = os.path.join(VERIF, "known_findings.json")
LOOP_TABLE = os.path.join(VERIF, "tables", "loop_bounds.json")

ENV = dict(os.environ)
ENV.update({"CARGO_NET_OFFLINE": "true", "CARGO_TERM_COLOR": "never"})


def log(msg):
    print(msg, flush=True)


# --------------------------------------------------------------------------- registry

class Harness:
    def __init__(self, name, module, path, meta, crate):
        self.name = name
        self.module = module
        self.full = f"{module}::{name}" if module else name
        self.path = path
        self.meta = meta
        self.crate = crate  # "ext" (the /verif/kani crate) or a package name inside /repo

    def get(self, key, default=None):
        v = self.meta.get(key)
        return v[-1] if v else default

    def getall(self, key):
        return self.meta.get(key, [])

    @property
    def props(self):
        return (self.get("prop") or "").split(",")

    @property
    def prop(self):
        return self.props[0]

    @property
    def tiers(self):
        return (self.get("tiers", "quick,thorough")).split(",")

    def tiers_for(self, prop):
        """`tiers_C02=thorough` overrides `tiers=` for one property (a shared harness can be quick for C01 only)."""
        return (self.get("tiers_" + prop, self.get("tiers", "quick,thorough"))).split(",")


META_RE = re.compile(r"^\s*//\s*@verif\s+(.*)$")
FN_RE = re.compile(r"^\s*(?:(?:pub\s+)?fn\s+([A-Za-z0-9_]+)\s*\(|[a-z_0-9]+!\(\s*([A-Za-z0-9_]+)\s*,)")
KV_RE = re.compile(r"([A-Za-z0-9_]+)=((?:\"[^\"]*\")|(?:\S+))")
LONG_KEYS = ("bound", "assume", "stub", "fns", "outside", "what")


def parse_meta_line(text, meta):
    text = text.strip()
    m = re.match(r"^([a-z_]+)=(.*)$", text)
    if m and m.group(1) in LONG_KEYS:
        meta.setdefault(m.group(1), []).append(m.group(2).strip())
        return
    for k, v in KV_RE.findall(text):
        meta.setdefault(k, []).append(v.strip('"'))


def scan_file(path, module, crate):
    out = []
    meta = {}
    pending = False
    with open(path) as f:
        for line in f:
            m = META_RE.match(line)
            if m:
                parse_meta_line(m.group(1), meta)
                pending = True
                continue
            if pending:
                fm = FN_RE.match(line)
                if fm:
                    out.append(Harness(fm.group(1) or fm.group(2), module, path, meta, crate))
                    meta = {}
                    pending = False
    return out


def discover():
    hs = []
    src = os.path.join(KANI_CRATE, "src")
    for fn in sorted(os.listdir(src)):
        if fn.endswith(".rs") and fn not in ("lib.rs",):
            mod = {"ops_list": "ops"}.get(fn[:-3], fn[:-3])  # include!()d lists live in their parent module
            hs += scan_file(os.path.join(src, fn), mod, "ext")
    # in-crate harness files (bin-only crates), mounted by a cfg(kani) #[path] hook
    incrate = os.path.join(VERIF, "hooks", "incrate.json")
    if os.path.exists(incrate):
        for ent in json.load(open(incrate)):
            hs += scan_file(os.path.join(VERIF, ent["file"]), ent["module"], ent["package"])
    return hs


# --------------------------------------------------------------------------- running kani

INCRATE_TESTS = os.path.join(REPLAY, "trust_lsp_tests.rs")


def ensure_dirs():
    for d in (WORK, LOGS, REPLAY, EVIDENCE, os.path.join(WORK, "generated")):
        os.makedirs(d, exist_ok=True)
    if not os.path.exists(INCRATE_TESTS):
        open(INCRATE_TESTS, "w").write("// no replay pending\n")


def ensure_lock():
    src = os.path.join(REPO, "Cargo.lock")
    dst = os.path.join(KANI_CRATE, "Cargo.lock")
    if not os.path.exists(dst):
        shutil.copy(src, dst)


def load_loop_table():
    if os.path.exists(LOOP_TABLE):
        return json.load(open(LOOP_TABLE))
    return {"patterns": []}


CURRENT_PROP = [None]


def kani_cmd(h, json_path, unwindset, playback=False):
    if h.crate == "ext":
        cwd = KANI_CRATE
        cmd = ["cargo", "kani"]
        feat = h.get("feature", (CURRENT_PROP[0] or h.prop).lower())
        cmd += ["--features", feat]
    else:
        cwd = REPO
        cmd = ["cargo", "kani", "-p", h.crate]
        if h.get("cargo_args"):
            cmd += h.get("cargo_args").split()
    cmd += ["--harness", h.full, "--exact", "-Z", "unstable-options", "--export-json", json_path]
    if h.get("stubbing", "no") == "yes":
        cmd += ["-Z", "stubbing"]
    for z in h.getall("z"):
        cmd += ["-Z", z]
    if playback:
        cmd += ["-Z", "concrete-playback", "--concrete-playback=print"]
    if h.get("solver"):
        cmd += ["--solver", h.get("solver")]
    cbmc = []
    if h.get("unwind") is not None:
        cbmc += ["--unwind", h.get("unwind")]
    if unwindset:
        cbmc += ["--unwindset", ",".join(f"{k}:{v}" for k, v in sorted(unwindset.items()))]
    for a in h.getall("cbmc"):
        cbmc += a.split()
    if cbmc:
        cmd += ["--cbmc-args"] + cbmc
    return cwd, cmd


def target_dir_for(h):
    if h.crate == "ext":
        return TARGET
    return os.path.join(WORK, "kani-target-" + h.crate)


def run_proc(cmd, cwd, logfile, timeout_s, mem_gb, env_extra=None):
    env = dict(ENV)
    if env_extra:
        env.update(env_extra)
    shell = "ulimit -v %d; exec \"$@\"" % (int(mem_gb * 1024 * 1024))
    full = ["bash", "-c", shell, "bash"] + cmd
    t0 = time.time()
    with open(logfile, "w") as lf:
        lf.write("$ " + " ".join(cmd) + "\n")
        lf.flush()
        p = subprocess.Popen(full, cwd=cwd, stdout=lf, stderr=subprocess.STDOUT, env=env,
                             start_new_session=True)
        try:
            rc = p.wait(timeout=timeout_s)
            timed_out = False
        except subprocess.TimeoutExpired:
            timed_out = True
            try:
                os.killpg(p.pid, 9)
            except ProcessLookupError:
                pass
            p.wait()
            rc = -9
    return rc, timed_out, time.time() - t0


UNWIND_DESC = re.compile(r"unwinding assertion loop (\d+)")
RECUR_DESC = re.compile(r"recursion unwinding assertion")


def parse_result(json_path, logfile, h):
    """Return dict(status, checks, failed, covers, stats...)."""
    res = {"harness": h.full, "status": "error", "failed": [], "unwind_failed": [],
           "covers": {"satisfied": 0, "unsat": 0, "list": []}, "n_checks": 0, "n_success": 0,
           "functions": set(), "solver_s": 0.0, "symex_s": 0.0, "vccs": 0, "detail": ""}
    logtxt = ""
    try:
        logtxt = open(logfile, errors="replace").read()
    except OSError:
        pass
    res["log_tail"] = logtxt[-1500:]
    res["oom_seen"] = ("ran out of memory" in logtxt) or ("Solver ran out" in logtxt) or ("Out of memory" in logtxt) or ("std::bad_alloc" in logtxt)
    if not os.path.exists(json_path):
        if "error: could not compile" in logtxt or "error[E" in logtxt:
            res["status"] = "build_error"
        return res
    try:
        d = json.load(open(json_path))
    except Exception as e:  # truncated file
        res["detail"] = f"bad json: {e}"
        return res
    results = d.get("verification_results", {}).get("results", [])
    if not results:
        return res
    r = results[0]
    st = r.get("status")
    undetermined = 0
    for c in r.get("checks", []):
        cat = c.get("category", "")
        status = c.get("status", "")
        desc = c.get("description", "")
        fn = c.get("function", "")
        if fn:
            res["functions"].add(fn)
        if cat == "cover" or status in ("Satisfied", "Unsatisfiable", "Unreachable") and cat == "cover":
            ok = status == "Satisfied"
            res["covers"]["list"].append({"desc": desc, "status": status,
                                          "line": c.get("location", {}).get("line")})
            if ok:
                res["covers"]["satisfied"] += 1
            else:
                res["covers"]["unsat"] += 1
            continue
        res["n_checks"] += 1
        if status == "Success":
            res["n_success"] += 1
        elif status == "Unreachable":
            res["n_success"] += 1  # vacuously true obligation; vacuity is guarded by covers
        elif status == "Failure":
            ent = {"function": fn, "description": desc, "category": cat,
                   "file": c.get("location", {}).get("file"), "line": c.get("location", {}).get("line")}
            if desc.startswith("NaN on "):
                # CBMC --nan-check (a Kani default): producing NaN is not a panic in Rust and is not part of
                # any property here; the harnesses state float obligations explicitly.
                res["nan_checks_ignored"] = res.get("nan_checks_ignored", 0) + 1
                res["n_success"] += 1
                continue
            pm = re.match(r"^\"?(C\d\d):", desc)
            if pm and CURRENT_PROP[0] and pm.group(1) != CURRENT_PROP[0]:
                # an obligation of another property sharing this harness: not this check's business
                res["other_prop_failed"] = res.get("other_prop_failed", 0) + 1
                continue
            if cat == "unwind" or UNWIND_DESC.search(desc) or RECUR_DESC.search(desc):
                res["unwind_failed"].append(ent)
            else:
                res["failed"].append(ent)
        else:
            undetermined += 1
    for cb in d.get("cbmc", []):
        s = cb.get("cbmc_stats") or {}
        res["solver_s"] += float(s.get("runtime_solver_s") or 0) + float(s.get("runtime_decision_procedure_s") or 0)
        res["symex_s"] += float(s.get("runtime_symex_s") or 0)
        res["vccs"] += int(s.get("vccs_generated") or 0)
    res["undetermined"] = undetermined
    if res["unwind_failed"]:
        res["status"] = "unwind"
    elif res["failed"]:
        res["status"] = "failed"
    elif (st == "Success" or res.get("other_prop_failed") or res.get("nan_checks_ignored")) and undetermined == 0:
        res["status"] = "vacuous" if res["covers"]["unsat"] else "ok"
    else:
        # kani says failure but no failed check parsed (e.g. unsupported construct reachable)
        res["status"] = "undetermined"
        res["detail"] = f"kani status={st} undetermined={undetermined}"
    return res


def show_loops(goto_file):
    """cbmc --show-loops on the instrumented goto binary -> {loop_id: (function, file, line)}"""
    out = subprocess.run(["cbmc", "--show-loops", goto_file], capture_output=True, text=True, env=ENV)
    loops = {}
    cur = None
    for line in out.stdout.splitlines():
        m = re.match(r"^Loop (\S+):$", line.strip())
        if m:
            cur = m.group(1)
            loops[cur] = ""
            continue
        if cur and line.strip().startswith("file "):
            loops[cur] = line.strip()
            cur = None
    return loops


def find_goto_file(json_path):
    try:
        d = json.load(open(json_path))
        gf = d["harness_metadata"][0]["goto_file"]
        cand = gf.replace(".symtab.out", ".out")
        if os.path.exists(cand):
            return cand
        return gf
    except Exception:
        return None


def match_loops(h, res, json_path, table):
    """Map failed unwinding assertions to loop ids + bounds using per-harness `loops=` patterns
    and the global table. Returns (new_bounds, unknown)."""
    pats = []
    for spec in h.getall("loops"):
        for item in spec.split(","):
            if ":" in item:
                p, b = item.rsplit(":", 1)
                pats.append((p, int(b)))
    for ent in table.get("patterns", []):
        pats.append((ent["pattern"], int(ent["bound"])))
    gf = find_goto_file(json_path)
    loops = show_loops(gf) if gf else {}
    new, unknown = {}, []
    for f in res["unwind_failed"]:
        m = UNWIND_DESC.search(f["description"])
        if not m:
            unknown.append(f)  # recursion: never raised (DESIGN Rule 2)
            continue
        num = m.group(1)
        fn = f["function"]
        # candidate ids: loops whose location line matches this function + loop number
        cands = [lid for lid, loc in loops.items() if lid.endswith("." + num) and
                 (f"function {fn}" in loc or loc.endswith("function " + fn))]
        bound = None
        for p, b in pats:
            if p in fn:
                bound = b
                break
        if bound is None or not cands:
            unknown.append(f)
            continue
        for lid in cands:
            new[lid] = bound
    return new, unknown


def run_harness(h, tier, table, jobs_note=""):
    ensure_dirs()
    timeout_s = int(h.get("timeout_" + tier, h.get("timeout", "900")))
    mem_gb = float(h.get("mem", "12"))
    json_path = os.path.join(LOGS, h.name + ".json")
    cache_path = os.path.join(WORK, "unwind_cache.json")
    seed_path = os.path.join(VERIF, "tables", "unwind_seed.json")
    unwindset = {}
    for pth in (seed_path, cache_path):
        if os.path.exists(pth):
            try:
                unwindset.update(json.load(open(pth)).get(h.full, {}))
            except Exception:
                pass
    rounds = []
    total_wall = 0.0
    res = None
    for rnd in range(8):
        if os.path.exists(json_path):
            os.remove(json_path)
        logfile = os.path.join(LOGS, f"{h.name}.r{rnd}.log")
        cwd, cmd = kani_cmd(h, json_path, unwindset)
        rc, timed_out, wall = run_proc(cmd, cwd, logfile, timeout_s, mem_gb,
                                       {"CARGO_TARGET_DIR": target_dir_for(h)})
        total_wall += wall
        res = parse_result(json_path, logfile, h)
        res["rc"] = rc
        res["cmd"] = " ".join(cmd)
        if res.get("oom_seen") and res["status"] not in ("ok", "failed"):
            res["status"] = "oom"
        if timed_out:
            res["status"] = "timeout"
        elif res["status"] == "error" and ("std::bad_alloc" in res["log_tail"] or "Out of memory" in res["log_tail"]
                                           or "memory exhausted" in res["log_tail"]):
            res["status"] = "oom"
        rounds.append({"round": rnd, "status": res["status"], "wall_s": round(wall, 1),
                       "unwindset": dict(unwindset)})
        if res["status"] != "unwind":
            break
        new, unknown = match_loops(h, res, json_path, table)
        new = {k: v for k, v in new.items() if unwindset.get(k) != v}
        if unknown or not new:
            res["status"] = "unwind_unknown"
            res["detail"] = "unbounded loop(s) not in the loop-bound table: " + "; ".join(
                f"{u['function']} [{u['description']}]" for u in (unknown or res["unwind_failed"]))
            break
        unwindset.update(new)
        # persist to the local cache
        try:
            cache = json.load(open(cache_path)) if os.path.exists(cache_path) else {}
        except Exception:
            cache = {}
        cache[h.full] = unwindset
        json.dump(cache, open(cache_path, "w"), indent=1, sort_keys=True)
    res["wall_s"] = round(total_wall, 1)
    res["rounds"] = rounds
    res["unwindset"] = unwindset
    res["json_path"] = json_path
    return res


# --------------------------------------------------------------------------- replay

TEST_RE = re.compile(r"```\n(.*?)```", re.S)


def extract_playback_tests(logtxt):
    tests = []
    for blk in TEST_RE.findall(logtxt):
        m = re.search(r"fn (kani_concrete_playback_[A-Za-z0-9_]+)\(\)", blk)
        if m and "Check for `cover`" not in blk:
            tests.append((m.group(1), blk))
    return tests


def replay_allocation_monitor(h, res):
    """Obligations stated through the allocation-monitor STUB cannot be replayed with kani playback (the
    native build runs the real Vec::with_capacity). They are replayed by feeding the real decoder a minimal
    input whose count field is 0xFFFFFFFF in a child process under `ulimit -v 4 GB`: the violation reproduces
    iff the process aborts with "memory allocation of N bytes failed"."""
    which = h.get("replay_native")
    exe = os.path.join(WORK, "native-target", "debug", "verif-native")
    env = dict(ENV, CARGO_TARGET_DIR=os.path.join(WORK, "native-target"))
    b = subprocess.run(["cargo", "build", "--offline", "-q"], cwd=os.path.join(VERIF, "native"), env=env,
                       capture_output=True, text=True)
    out = {"tests": [], "reproduced_dev": False, "reproduced_release": None, "path": None, "detail": ""}
    if b.returncode != 0:
        out["detail"] = "native build failed: " + b.stderr[-300:]
        return out
    p = subprocess.run(["bash", "-c", f"ulimit -v 4000000; exec {exe} alloc-replay {which}"],
                       capture_output=True, text=True)
    txt = (p.stdout + p.stderr)
    m = re.search(r"memory allocation of (\d+) bytes failed", txt)
    out["reproduced_dev"] = bool(m) and p.returncode != 0
    out["panic"] = m.group(0) if m else txt[-200:]
    path = os.path.join(REPLAY, h.name + ".txt")
    with open(path, "w") as f:
        f.write(f"# Replay for harness {h.full} (property {CURRENT_PROP[0]}): allocation-monitor obligation\n"
                f"# command: bash -c 'ulimit -v 4000000; {exe} alloc-replay {which}'\n"
                f"# observed: rc={p.returncode} {out['panic']}\n")
    out["path"] = path
    return out


def replay_counterexample(h, res, unwindset):
    """Re-run the failing harness with concrete playback, then execute the generated unit
    test natively (dev and release). Returns dict(reproduced_dev, reproduced_release, path)."""
    ensure_dirs()
    if h.get("replay_native") and res["failed"] and all("allocation" in (f.get("description") or "") for f in res.get("unlisted", res["failed"])):
        return replay_allocation_monitor(h, res)
    json_path = os.path.join(LOGS, h.name + ".pb.json")
    logfile = os.path.join(LOGS, h.name + ".pb.log")
    cwd, cmd = kani_cmd(h, json_path, unwindset, playback=True)
    timeout_s = int(h.get("timeout", "900")) * 2
    # the driver itself parses the full counterexample trace: give the playback run generous memory
    run_proc(cmd, cwd, logfile, timeout_s, max(32.0, float(h.get("mem", "12"))),
             {"CARGO_TARGET_DIR": target_dir_for(h)})
    logtxt = open(logfile, errors="replace").read()
    tests = extract_playback_tests(logtxt)
    seen = set()
    tests = [t for t in tests if not (t[0] in seen or seen.add(t[0]))]
    out = {"tests": [t[0] for t in tests], "reproduced_dev": False, "reproduced_release": None,
           "path": None, "detail": ""}
    if not tests:
        out["detail"] = "kani produced no concrete playback test"
        return out
    path = os.path.join(REPLAY, h.name + ".rs")
    header = (f"// Replay for harness {h.full} (property {h.prop}).\n"
              f"// Re-run: {VERIF}/check {h.prop} --replay {path}\n"
              f"// Failed checks: " + "; ".join(f"{f['description']} @ {f['function']}" for f in res["failed"]) + "\n")
    with open(path, "w") as f:
        f.write(header)
        f.write(f"// @replay harness={h.full} crate={h.crate} file={os.path.relpath(h.path, VERIF)}\n")
        for _, blk in tests:
            f.write(blk + "\n")
    out["path"] = path
    rep = run_replay_file(path)
    out.update(rep)
    return out


def run_replay_file(path):
    txt = open(path).read()
    m = re.search(r"@replay harness=(\S+) crate=(\S+) file=(\S+)", txt)
    if not m:
        return {"reproduced_dev": False, "detail": "not a replay file"}
    full, crate, relfile = m.groups()
    names = re.findall(r"fn (kani_concrete_playback_[A-Za-z0-9_]+)\(\)", txt)
    body = "\n".join(l for l in txt.splitlines() if not l.startswith("// "))
    if crate != "ext":
        return run_replay_incrate(full, crate, relfile, names, body)
    dst = os.path.join(REPLAY, "crate")
    subprocess.run(["rsync", "-a", "--delete", "--exclude", "target", KANI_CRATE + "/", dst + "/"], check=True)
    modfile = os.path.join(dst, os.path.relpath(os.path.join(VERIF, relfile), KANI_CRATE))
    with open(modfile, "a") as f:
        f.write("\n" + body + "\n")
    feat = os.path.basename(relfile)[:-3]
    hs = [x for x in discover() if x.full == full]
    if hs:
        feat = hs[0].get("feature", (CURRENT_PROP[0] or hs[0].prop).lower())
    res = {"reproduced_dev": False, "reproduced_release": None, "detail": ""}
    for prof in ("dev", "release"):
        cmd = ["cargo", "kani", "playback", "-Z", "concrete-playback", "--features", feat]
        if prof == "release":
            # kani playback has no --release; run the same generated test through cargo test
            continue
        cmd += ["--"] + names
        logfile = os.path.join(LOGS, os.path.basename(path) + f".{prof}.log")
        rc, to, wall = run_proc(cmd, dst, logfile, 1800, 16, {"CARGO_TARGET_DIR": PLAYBACK_TARGET})
        t = open(logfile, errors="replace").read()
        failed = re.search(r"test result: FAILED", t) is not None
        passed = re.search(r"test result: ok", t) is not None
        res["reproduced_" + prof] = failed
        if not failed and not passed:
            res["detail"] += f"[{prof}] playback did not run (rc={rc}) "
        m2 = re.findall(r"panicked at ([^\n]*\n[^\n]*)", t)
        if m2:
            res["panic"] = m2[0].replace("\n", " ")[:300]
    return res


def run_replay_incrate(full, crate, relfile, names, body):
    """Bin-only crates: the harness file is mounted inside /repo by a cfg(kani) hook; the test is
    appended to a scratch copy of the hook file and the copy is mounted through VERIF_HOOK_OVERRIDE."""
    res = {"reproduced_dev": False, "reproduced_release": None, "detail": ""}
    try:
        open(INCRATE_TESTS, "w").write(body + "\n")
        cmd = ["cargo", "kani", "playback", "-p", crate, "-Z", "concrete-playback", "--"] + names
        logfile = os.path.join(LOGS, "incrate_playback.dev.log")
        rc, to, wall = run_proc(cmd, REPO, logfile, 3600, 24,
                                {"CARGO_TARGET_DIR": os.path.join(WORK, "playback-target-" + crate)})
        t = open(logfile, errors="replace").read()
        failed = re.search(r"test result: FAILED", t) is not None
        passed = re.search(r"test result: ok", t) is not None
        res["reproduced_dev"] = failed
        if not failed and not passed:
            res["detail"] = f"playback did not run (rc={rc})"
        m2 = re.findall(r"panicked at ([^\n]*\n[^\n]*)", t)
        if m2:
            res["panic"] = m2[0].replace("\n", " ")[:300]
    finally:
        open(INCRATE_TESTS, "w").write("// no replay pending\n")
    return res


# --------------------------------------------------------------------------- known findings

def load_known():
    if os.path.exists(KNOWN):
        return json.load(open(KNOWN))
    return {"findings": [], "fixed": []}


def match_known(known, h, failed):
    """A failed check is a known finding iff an entry matches harness (regex), function
    (substring) and description (regex)."""
    for k in known.get("findings", []):
        if k.get("property") != CURRENT_PROP[0]:
            continue
        if not re.search(k["harness"], h.name):
            continue
        if k.get("function") and k["function"] not in (failed.get("function") or ""):
            continue
        if k.get("description") and not re.search(k["description"], failed.get("description") or ""):
            continue
        return k
    return None


# --------------------------------------------------------------------------- evidence

def write_evidence(prop, tier, seed, results, wall, violations, extra, harnesses):
    ensure_dirs()
    by = {h.full: h for h in harnesses}
    n_queries = sum(len(r.get("rounds", [])) or 1 for r in results)
    conclusive = [r for r in results if r["status"] in ("ok", "known", "failed")]
    nontrivial = [r for r in conclusive if r["covers"]["satisfied"] > 0 and r["n_checks"] > 0]
    functions = sorted({f for r in results for f in r.get("functions", [])
                        if f and not f.startswith(("std::", "core::", "alloc::", "kani::", "<"))})
    samples = []
    for r in results[:12]:
        h = by.get(r["harness"])
        samples.append({
            "harness": r["harness"],
            "status": r["status"],
            "what": (h.get("what") if h else None),
            "bound": (h.getall("bound") if h else None),
            "checks": r["n_checks"],
            "covers_satisfied": r["covers"]["satisfied"],
            "example_cover": (r["covers"]["list"][0] if r["covers"]["list"] else None),
        })
    table = []
    for r in results:
        h = by.get(r["harness"])
        table.append({
            "harness": r["harness"], "kernel": h.get("kernel") if h else None,
            "status": r["status"], "detail": r.get("detail", ""),
            "obligations": r["n_checks"], "discharged": r["n_success"],
            "failed": r["failed"][:10], "covers": r["covers"]["satisfied"],
            "covers_unsat": r["covers"]["unsat"],
            "solver_s": round(r["solver_s"], 2), "symex_s": round(r["symex_s"], 2),
            "vccs": r["vccs"], "wall_s": r.get("wall_s"), "rounds": r.get("rounds"),
            "unwind": (h.get("unwind") if h else None), "unwindset": r.get("unwindset"),
            "bounds": h.getall("bound") if h else [], "assumes": h.getall("assume") if h else [],
            "stubs": h.getall("stub") if h else [], "functions_under_test": h.getall("fns") if h else [],
            "outside": h.getall("outside") if h else [],
            "known_findings": r.get("known", []), "replay": r.get("replay"),
        })
    ev = {
        "property_id": prop,
        "tier": tier,
        "seed": seed,
        "level": "model_checking",
        "coverage": {
            "evaluations": n_queries,
            "distinct_nontrivial": len(nontrivial),
            "rule": "one evaluation = one CBMC bounded-model-checking run of a #[kani::proof] harness over the "
                    "real code (all inputs symbolic within the harness bound); a harness counts as distinct and "
                    "non-trivial when its verdict is conclusive, it carries at least one CBMC property inside real "
                    "trust-platform code and every kani::cover! reachability witness is SATISFIED",
            "samples": samples,
            "obligations": sum(r["n_checks"] for r in results),
            "discharged": sum(r["n_success"] for r in results),
            "harnesses": table,
            "functions_encoded": functions[:400],
            "solver_wall_s": round(sum(r["solver_s"] for r in results), 2),
            "symex_wall_s": round(sum(r["symex_s"] for r in results), 2),
            "vccs_generated": sum(r["vccs"] for r in results),
            "engine": "Kani 0.68.0 / CBMC 6.11.0 / CaDiCaL; unwinding assertions on",
            "trusted_base": ["rustc->Kani->CBMC translation (dev profile: overflow-checks and debug-assertions on)",
                             "CaDiCaL", "harness-side reference models and listed stubs/assumptions"],
            "exhaustive": False,
        },
        "assumptions": sorted({a for r in table for a in (r["assumes"] + ["stub: " + s for s in r["stubs"]])}),
        "wall_s": round(wall, 1),
        "violations": violations,
    }
    ev["coverage"].update(extra or {})
    with open(os.path.join(EVIDENCE, prop + ".json"), "w") as f:
        json.dump(ev, f, indent=1, default=list)


# --------------------------------------------------------------------------- main

def repo_fingerprint():
    try:
        head = subprocess.run(["git", "-C", REPO, "rev-parse", "HEAD"], capture_output=True, text=True).stdout.strip()
        diff = subprocess.run(["git", "-C", REPO, "diff", "HEAD"], capture_output=True, text=True).stdout
        return head[:12] + "+" + hashlib.sha1(diff.encode()).hexdigest()[:8]
    except Exception:
        return "unknown"


def main(argv):
    ap = argparse.ArgumentParser()
    ap.add_argument("prop", nargs="?")
    ap.add_argument("--tier", default=os.environ.get("VERIF_TIER", "quick"))
    ap.add_argument("--only", default=None)
    ap.add_argument("--jobs", type=int, default=int(os.environ.get("VERIF_JOBS", "12")))
    ap.add_argument("--replay", default=None)
    ap.add_argument("--list", action="store_true")
    ap.add_argument("--no-replay", action="store_true")
    args = ap.parse_args(argv)
    seed = int(os.environ.get("VERIF_SEED", "0") or 0)
    ensure_dirs()
    harnesses = discover()
    if args.list:
        for h in harnesses:
            print(",".join(h.props), h.full, ",".join(h.tiers), h.get("kernel", ""))
        return 0
    if args.replay:
        CURRENT_PROP[0] = args.prop
        rep = run_replay_file(args.replay)
        log(json.dumps(rep, indent=1))
        if rep.get("reproduced_dev"):
            log(f"VIOLATION property={args.prop} replay={args.replay}")
            return 1
        return 0
    prop = args.prop
    if not prop:
        ap.error("property id required")
    tier = args.tier if args.tier in ("quick", "thorough") else "quick"
    CURRENT_PROP[0] = prop
    sel = [h for h in harnesses if prop in h.props and tier in h.tiers_for(prop)]
    if args.only:
        sel = [h for h in sel if args.only in h.name or re.search(args.only, h.name)]
    t0 = time.time()
    extra = {}
    # property-specific pre-steps (generated tables, non-Kani sub-checks)
    import vprops
    pre = vprops.PRE.get(prop)
    pre_results = []
    if pre and not args.only:
        try:
            pre_results = pre(tier, seed) or []
        except vprops.Inconclusive as e:
            log(f"INCONCLUSIVE property={prop} pre-step: {e}")
            return 2
    if not sel and not pre_results:
        log(f"no harnesses registered for {prop} tier {tier}")
        return 2
    ensure_lock()
    # deterministic order permuted by seed (verdicts are seed independent)
    sel.sort(key=lambda h: hashlib.sha1((str(seed) + h.full).encode()).hexdigest())
    table = load_loop_table()
    known = load_known()
    log(f"[{prop}] tier={tier} harnesses={len(sel)} jobs={args.jobs} repo={repo_fingerprint()}")
    # first harness alone so the dependency build is done once, the rest in parallel
    results = []
    def work(h):
        r = run_harness(h, tier, table)
        log(f"  {h.full}: {r['status']} checks={r['n_checks']} covers={r['covers']['satisfied']}"
            f"/{r['covers']['satisfied'] + r['covers']['unsat']} wall={r['wall_s']}s"
            + (f" [{r.get('detail')}]" if r.get("detail") else ""))
        return r
    if sel:
        results.append(work(sel[0]))
        with cf.ThreadPoolExecutor(max_workers=max(1, args.jobs)) as ex:
            for r in ex.map(work, sel[1:]):
                results.append(r)
    by = {h.full: h for h in sel}
    violations = 0
    inconclusive = 0
    exit_lines = []
    for r in results:
        h = by[r["harness"]]
        if r["status"] == "ok":
            continue
        if r["status"] == "failed":
            unknown = []
            r["known"] = []
            for f in r["failed"]:
                k = match_known(known, h, f)
                if k:
                    if k["key"] not in [x["key"] for x in r["known"]]:
                        r["known"].append({"key": k["key"], "what": k["what"]})
                else:
                    unknown.append(f)
            if not unknown:
                r["status"] = "known"
                continue
            r["unlisted"] = unknown
            if args.no_replay:
                rep = {"reproduced_dev": True, "path": None, "detail": "replay skipped"}
            elif violations >= 1:
                # one natively reproduced violation already decides the exit status; further counterexamples are
                # recorded in evidence but not replayed (each replay costs a solver run plus a native build)
                r["status"] = "failed_unreplayed"
                log(f"  further counterexample in {h.full} (not replayed: a violation already reproduced): "
                    + "; ".join(f"{f['description']}" for f in unknown[:2]))
                continue
            else:
                rep = replay_counterexample(h, r, r.get("unwindset") or {})
            r["replay"] = rep
            if rep.get("reproduced_dev"):
                violations += 1
                desc = "; ".join(f"{f['description']} @ {f['function']}" for f in unknown[:3])
                log(f"  counterexample for {h.full} reproduces natively: {desc}")
                exit_lines.append(f"VIOLATION property={prop} replay={rep.get('path')}")
            else:
                inconclusive += 1
                log(f"  counterexample for {h.full} did NOT reproduce natively ({rep.get('detail')}); "
                    f"treated as inconclusive")
        else:
            inconclusive += 1
            log(f"  INCONCLUSIVE {h.full}: {r['status']} {r.get('detail', '')}")
    # pre-step results (non-Kani sub-checks) are merged in
    for pr in pre_results:
        results.append(pr)
        if pr["status"] == "violation":
            violations += 1
            exit_lines.append(f"VIOLATION property={prop} replay={pr.get('replay')}")
        elif pr["status"] not in ("ok", "known"):
            inconclusive += 1
    printed = set()
    for r in results:
        for k in r.get("known", []):
            if k["key"] not in printed:
                printed.add(k["key"])
                log(f"KNOWN-FINDING: property={prop} {k['key']}: {k['what']}")
    wall = time.time() - t0
    extra.update(vprops.EXTRA.get(prop, lambda: {})())
    write_evidence(prop, tier, seed, results, wall, violations, extra, harnesses)
    for l in exit_lines:
        log(l)
    if violations:
        return 1
    if inconclusive:
        log(f"INCONCLUSIVE property={prop}: {inconclusive} harness(es) gave no verdict")
        return 2
    log(f"[{prop}] held on everything explored: {len(results)} solver obligations groups, "
        f"{sum(r['n_checks'] for r in results)} CBMC properties, wall {wall:.0f}s")
    return 0
