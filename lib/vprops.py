"""Property-specific pre-steps (generated tables, non-Kani sub-checks) and evidence extras."""


class Inconclusive(Exception):
    pass


def _accept_tables(tier, seed):
    import vgen
    stats = vgen.gen_accept()
    _STATS["accept"] = stats
    return []


def _c18_tables(tier, seed):
    import vgen
    _STATS["c18"] = vgen.gen_c18()
    return []


def _c10_crash(tier, seed):
    """C10-K3: SMT crash-atomicity sub-check (z3 + cvc5), see smt/c10_crash.py"""
    import json, os, subprocess, sys
    here = os.path.dirname(os.path.dirname(os.path.abspath(__file__)))
    p = subprocess.run([sys.executable, os.path.join(here, "smt", "c10_crash.py")], capture_output=True, text=True)
    try:
        res = json.loads(p.stdout.strip().splitlines()[-1])
    except Exception as e:
        raise Inconclusive(f"c10_crash.py produced no result: {e} {p.stderr[-300:]}")
    res["functions"] = set(res.get("functions", []))
    res.setdefault("unwindset", {})
    print(f"  {res['harness']}: {res['status']} effects={res.get('effects')} solvers={res.get('solvers')} {res.get('detail','')[:200]}", flush=True)
    if res["status"] == "inconclusive":
        res["status"] = "inconclusive_smt"
    return [res]


_STATS = {}
PRE = {"C10": _c10_crash, "C01": _accept_tables, "C02": _accept_tables, "C03": _accept_tables, "C18": _c18_tables}
EXTRA = {
    "C01": lambda: {"acceptance_table": _STATS.get("accept"),
                    "acceptance_table_source": "real parser + HIR diagnostics of /repo run natively by /verif/extract on one generated program (one statement per operator/type triple)"},
    "C02": lambda: {"acceptance_table": _STATS.get("accept")},
    "C03": lambda: {"acceptance_table": _STATS.get("accept")},
    "C10": lambda: {"crash_model": "smt/c10_crash.py: effect order of FileRetainStore::write_bytes extracted from the current source; process-death crash model (completed writes survive, a crash inside write_all leaves a prefix, rename is atomic); SMT-LIB2 solved by z3 4.8.12 and cross-checked with cvc5 1.0; sat => native replay with /verif/native crash-replay against the real load()",
                    "crash_model_trusted_base": ["effect recogniser (regex over write_bytes)", "file-system crash model"]},
    "C18": lambda: {"dispatcher_table": _STATS.get("c18"),
                    "dispatcher_table_source": "regex recogniser over control/handlers/{status,io,debug,variables,program}.rs of the current tree; specification side: tables/c18_readonly_handlers.txt"},
}
