"""Property-specific pre-steps (generated tables, non-Kani sub-checks) and evidence extras."""


class Inconclusive(Exception):
    pass


PRE = {}
EXTRA = {}
