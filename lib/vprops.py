"""Property-specific pre-steps (generated tables, non-Kani sub-checks) and evidence extras."""


class Inconclusive(Exception):
    pass


def _accept_tables(tier, seed):
    import vgen
    stats = vgen.gen_accept()
    _STATS["accept"] = stats
    return []


_STATS = {}
PRE = {"C01": _accept_tables, "C02": _accept_tables, "C03": _accept_tables}
EXTRA = {
    "C01": lambda: {"acceptance_table": _STATS.get("accept"),
                    "acceptance_table_source": "real parser + HIR diagnostics of /repo run natively by /verif/extract on one generated program (one statement per operator/type triple)"},
    "C02": lambda: {"acceptance_table": _STATS.get("accept")},
    "C03": lambda: {"acceptance_table": _STATS.get("accept")},
}
