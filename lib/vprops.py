"""Property-specific pre-steps (generated tables, non-Kani sub-checks) and evidence extras."""


class Inconclusive(Exception):
    pass


def _accept_tables(tier, seed):
    import vgen
    stats = vgen.gen_accept()
    _STATS["accept"] = stats
    return []


def _c18_tables(tier, seed):
    import vgen
    _STATS["c18"] = vgen.gen_c18()
    return []


_STATS = {}
PRE = {"C01": _accept_tables, "C02": _accept_tables, "C03": _accept_tables, "C18": _c18_tables}
EXTRA = {
    "C01": lambda: {"acceptance_table": _STATS.get("accept"),
                    "acceptance_table_source": "real parser + HIR diagnostics of /repo run natively by /verif/extract on one generated program (one statement per operator/type triple)"},
    "C02": lambda: {"acceptance_table": _STATS.get("accept")},
    "C03": lambda: {"acceptance_table": _STATS.get("accept")},
    "C18": lambda: {"dispatcher_table": _STATS.get("c18"),
                    "dispatcher_table_source": "regex recogniser over control/handlers/{status,io,debug,variables,program}.rs of the current tree; specification side: tables/c18_readonly_handlers.txt"},
}
