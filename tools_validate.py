#!/usr/bin/env python3
"""Validate MANIFEST.json and evidence/*.json against the schemas in /root/.vp (run with python3-vt)."""
import json, sys, glob, jsonschema
ok = True
m = json.load(open('/verif/MANIFEST.json'))
jsonschema.validate(m, json.load(open('/root/.vp/MANIFEST.schema.json')))
print('MANIFEST ok,', len(m['checks']), 'checks,', len(m.get('not_applicable', [])), 'n/a')
props = [json.loads(l)['id'] for l in open('/verif/properties.jsonl')]
claimed = {c['property_id'] for c in m['checks']}
na = {n['property_id'] for n in m.get('not_applicable', [])}
for p in props:
    if (p in claimed) == (p in na):
        print('property', p, 'must be exactly one of claimed / not_applicable'); ok = False
es = json.load(open('/root/.vp/EVIDENCE.schema.json'))
for f in sorted(glob.glob('/verif/evidence/*.json')):
    try:
        jsonschema.validate(json.load(open(f)), es)
        print(f, 'ok')
    except Exception as e:
        print(f, 'INVALID', str(e)[:300]); ok = False
sys.exit(0 if ok else 1)
