//! Native table extractor: asks the REAL front end (parser + HIR diagnostics, i.e. the compile
//! gate of harness/build.rs:56-70) which tiny programs it accepts. One statement per line, the
//! diagnostics' ranges say which lines were rejected. Output: JSON on stdout.
use trust_hir::db::SemanticDatabase;
use trust_hir::{Project, SourceKey};
use trust_syntax::parser;

const TYPES: [&str; 27] = [
    "BOOL", "SINT", "INT", "DINT", "LINT", "USINT", "UINT", "UDINT", "ULINT", "REAL", "LREAL", "BYTE",
    "WORD", "DWORD", "LWORD", "TIME", "LTIME", "DATE", "LDATE", "TOD", "LTOD", "DT", "LDT", "STRING",
    "WSTRING", "CHAR", "WCHAR",
];
const BINOPS: [&str; 15] = [
    "+", "-", "*", "/", "MOD", "**", "AND", "OR", "XOR", "=", "<>", "<", "<=", ">", ">=",
];

fn case_label(t: &str) -> &'static str {
    match t {
        "BOOL" => "TRUE",
        "REAL" | "LREAL" => "1.0",
        "TIME" => "T#1s",
        "LTIME" => "LTIME#1s",
        "DATE" => "D#2020-01-01",
        "LDATE" => "LDATE#2020-01-01",
        "TOD" => "TOD#01:00:00",
        "LTOD" => "LTOD#01:00:00",
        "DT" => "DT#2020-01-01-01:00:00",
        "LDT" => "LDT#2020-01-01-01:00:00",
        "STRING" => "'a'",
        "WSTRING" => "\"a\"",
        "CHAR" => "'a'",
        "WCHAR" => "\"a\"",
        _ => "1",
    }
}

fn main() {
    let mut lines: Vec<String> = Vec::new();
    let mut tags: Vec<String> = Vec::new(); // parallel: what each line tests ("" = scaffolding)
    let mut push = |l: String, t: String| {
        lines.push(l);
        tags.push(t);
    };
    push("PROGRAM P".into(), "".into());
    push("VAR".into(), "".into());
    for t in TYPES {
        push(format!("  a_{t} : {t}; b_{t} : {t};"), "".into());
    }
    push("  xb : BOOL;".into(), "".into());
    push("END_VAR".into(), "".into());
    for (oi, op) in BINOPS.iter().enumerate() {
        let cmp_or_logic = oi >= 6;
        for (li, l) in TYPES.iter().enumerate() {
            for (ri, r) in TYPES.iter().enumerate() {
                let e = format!("(a_{l} {op} b_{r})");
                let stmt = if cmp_or_logic { format!("xb := {e};") } else { format!("xb := {e} = {e};") };
                push(stmt, format!("bin {oi} {li} {ri}"));
            }
        }
    }
    for (ti, t) in TYPES.iter().enumerate() {
        push(format!("xb := (-a_{t}) = (-a_{t});"), format!("un 0 {ti}"));
        push(format!("xb := (NOT a_{t}) = (NOT a_{t});"), format!("un 1 {ti}"));
        push(
            format!("CASE a_{t} OF {}: xb := TRUE; ELSE xb := FALSE; END_CASE;", case_label(t)),
            format!("case {ti}"),
        );
        push(format!("IF a_{t} THEN xb := TRUE; END_IF;"), format!("cond {ti}"));
        push(format!("FOR a_{t} := 1 TO 2 DO xb := TRUE; END_FOR;"), format!("forctl {ti}"));
        for (si, s) in TYPES.iter().enumerate() {
            push(format!("a_{t} := b_{s};"), format!("assign {ti} {si}"));
        }
    }
    // FOR bound / step expression types against each integer control type
    for ci in 1..9usize {
        for bi in 1..9usize {
            let (c, b) = (TYPES[ci], TYPES[bi]);
            push(
                format!("FOR a_{c} := b_{b} TO b_{b} BY b_{b} DO xb := TRUE; END_FOR;"),
                format!("forbound {ci} {bi}"),
            );
        }
    }
    push("END_PROGRAM".into(), "".into());
    let text = lines.join("\n") + "\n";
    // line start offsets
    let mut starts = Vec::with_capacity(lines.len());
    let mut off = 0usize;
    for l in &lines {
        starts.push(off);
        off += l.len() + 1;
    }
    let line_of = |pos: usize| -> usize {
        match starts.binary_search(&pos) {
            Ok(i) => i,
            Err(i) => i - 1,
        }
    };
    let mut rejected = vec![false; lines.len()];
    let mut scaffold_errors: Vec<String> = Vec::new();
    let parse = parser::parse(&text);
    for err in parse.errors() {
        let s = err.to_string();
        let r = err.range;
        let ln = line_of(u32::from(r.start()) as usize);
        if tags[ln].is_empty() { scaffold_errors.push(format!("parse: {s}")); }
        rejected[ln] = true;
    }
    let mut project = Project::new();
    let fid = project.set_source_text(SourceKey::from_virtual("t.st".to_string()), text.clone());
    let diags = project.database().diagnostics(fid);
    for d in diags.iter().filter(|d| d.is_error()) {
        let ln = line_of(u32::from(d.range.start()) as usize);
        if tags[ln].is_empty() { scaffold_errors.push(format!("diag: {d}")); }
        rejected[ln] = true;
    }
    let mut out = String::from("{\n \"types\": [");
    out += &TYPES.iter().map(|t| format!("\"{t}\"")).collect::<Vec<_>>().join(",");
    out += "],\n \"binops\": [";
    out += &BINOPS.iter().map(|t| format!("\"{t}\"")).collect::<Vec<_>>().join(",");
    out += "],\n \"scaffold_errors\": [";
    out += &scaffold_errors.iter().map(|t| format!("{:?}", t)).collect::<Vec<_>>().join(",");
    out += "],\n \"rows\": [\n";
    let mut first = true;
    for (i, t) in tags.iter().enumerate() {
        if t.is_empty() { continue; }
        if !first { out += ",\n"; }
        first = false;
        out += &format!("  [\"{}\", {}]", t, if rejected[i] { 0 } else { 1 });
    }
    out += "\n ]\n}\n";
    print!("{out}");
}
