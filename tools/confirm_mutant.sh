#!/usr/bin/env bash
# Confirm a seeded mutant independently: usage confirm_mutant.sh <mutant_dir> [--skip-suite]
#  - scratch worktree /tmp/confirm_wt (created on demand, reused), target dir /tmp/confirm_target
#  - applies patch.diff, places the demo, runs the demo (must FAIL), runs the full suite (must pass
#    apart from the baseline-flaky tests), reverts the patch, runs the demo again (must PASS).
# Writes <mutant_dir>/confirm.json.
set -u
D=$(realpath "$1"); SKIP=${2:-}
WT=/tmp/confirm_wt
export CARGO_TARGET_DIR=/tmp/confirm_target CARGO_NET_OFFLINE=true CARGO_PROFILE_DEV_DEBUG=0 CARGO_PROFILE_TEST_DEBUG=0 CARGO_INCREMENTAL=0
BASE=$(cat "$D/base_commit.txt" 2>/dev/null || echo 28b97d8)
if [ ! -d $WT ]; then git -C /repo worktree add --detach $WT $BASE >/dev/null 2>&1; fi
cd $WT && git checkout -q --detach $BASE && git checkout -q -- . && git clean -fdq crates
DEMO_SRC=$(ls "$D" | grep -E '^demo\.' | head -1)
DEMO_DST=$(grep -o -E '(crates|tests)/[A-Za-z0-9_./-]+\.rs' "$D/demo_path.txt" | head -1)
DEMO_CMD=$(python3 -c "import json,sys;print(json.load(open('$D/meta.json'))['demo_cmd'])")
DEMO_CMD=${DEMO_CMD//\/tmp\/mut_[A-Z0-9]*_target/$CARGO_TARGET_DIR}
res() { python3 - "$@" <<'PY'
import json,sys
k=sys.argv[1:]
d=dict(zip(k[0::2],k[1::2]))
json.dump(d,open(d.pop('_out'),'w'),indent=1)
PY
}
git apply --check "$D/patch.diff" 2>/tmp/confirm_apply.err || { res _out "$D/confirm.json" applies false detail "$(cat /tmp/confirm_apply.err | head -3)"; echo "patch does not apply"; exit 1; }
git apply "$D/patch.diff"
mkdir -p "$(dirname "$DEMO_DST")"; cp "$D/$DEMO_SRC" "$DEMO_DST"
echo "== demo with patch: $DEMO_CMD"
( eval "$DEMO_CMD" ) >/tmp/confirm_demo_with.log 2>&1; RC_WITH=$?
SUITE=skipped
if [ "$SKIP" != "--skip-suite" ]; then
  rm -f "$DEMO_DST"
  echo "== suite with patch"
  cargo nextest run --workspace --no-fail-fast --offline --test-threads 8 --tool-config-file pb:/w/lib/nextest.toml --profile pb >/tmp/confirm_suite.log 2>&1
  FAILS=$(grep -E "^\s+(FAIL|SIGABRT|SIGSEGV|TIMEOUT|LEAK-FAIL)" /tmp/confirm_suite.log | grep -v -E "web_ide_shell_serves_local_hashed_assets_without_cdn_dependency|hmi_descriptor_watcher_handles_rapid_file_changes_without_deadlock|latency_and_resource_budgets_are_enforced|web_ide_latency_and_resource_budget_contract|web_ide_reference_performance_gates_contract|breakpoint_set_while_running_hits_on_subsequent_cycle" | sort -u | head -5)
  if grep -q "error: could not compile\|error\[E" /tmp/confirm_suite.log; then SUITE="build_error"; elif [ -n "$FAILS" ]; then SUITE="fails: $FAILS"; else SUITE=pass; fi
  grep -E "Summary" /tmp/confirm_suite.log | tail -1
  cp "$D/$DEMO_SRC" "$DEMO_DST"
fi
git apply -R "$D/patch.diff"
echo "== demo without patch"
( eval "$DEMO_CMD" ) >/tmp/confirm_demo_without.log 2>&1; RC_WITHOUT=$?
rm -f "$DEMO_DST"; git checkout -q -- . ; git clean -fdq crates
OK=false; if [ $RC_WITH -ne 0 ] && [ $RC_WITHOUT -eq 0 ] && { [ "$SUITE" = pass ] || [ "$SUITE" = skipped ]; }; then OK=true; fi
res _out "$D/confirm.json" applies true demo_rc_with_patch $RC_WITH demo_rc_without_patch $RC_WITHOUT suite "$SUITE" confirmed $OK base $BASE
echo "confirmed=$OK demo_with=$RC_WITH demo_without=$RC_WITHOUT suite=$SUITE"
