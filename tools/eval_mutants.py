#!/usr/bin/env python3
"""Run the registered quick check of the property a seeded mutant breaks, with the mutant applied to /repo
(git apply ... ; check ; git checkout -- .). Writes seeded/<id>/detect.json and seeded/SUMMARY.md.
usage: eval_mutants.py [ids...]   (default: every confirmed mutant without detect.json)"""
import json, os, subprocess, sys, time, glob
V = "/verif"
def sh(cmd, **kw):
    return subprocess.run(cmd, shell=True, capture_output=True, text=True, **kw)
ids = sys.argv[1:]
dirs = sorted(glob.glob(f"{V}/seeded/*/"))
for d in dirs:
    mid = os.path.basename(d.rstrip("/"))
    if ids and mid not in ids:
        continue
    if not os.path.exists(d + "confirm.json") or not json.load(open(d + "confirm.json")).get("confirmed") in (True, "true"):
        continue
    if not ids and os.path.exists(d + "detect.json"):
        continue
    meta = json.load(open(d + "meta.json"))
    prop = meta["property"]
    if sh("git -C /repo status --porcelain").stdout.strip():
        print("repo not clean, abort"); sys.exit(1)
    ap = sh(f"git -C /repo apply {d}patch.diff")
    if ap.returncode != 0:
        ap = sh(f"git -C /repo apply --3way {d}patch.diff")
    res = {"mutant": mid, "property": prop, "applied": ap.returncode == 0}
    if ap.returncode == 0:
        t0 = time.time()
        try:
            r = subprocess.run([f"{V}/check", prop, "--tier", "quick", "--jobs", "12"], cwd=V, capture_output=True, text=True, timeout=5400)
            out = r.stdout
            res.update({"exit": r.returncode, "wall_s": round(time.time() - t0),
                        "violation_lines": [l for l in out.splitlines() if l.startswith("VIOLATION")],
                        "reproduces": [l.strip()[:300] for l in out.splitlines() if "reproduces natively" in l or "smt::" in l],
                        "inconclusive": [l.strip()[:200] for l in out.splitlines() if "INCONCLUSIVE" in l][:5]})
        except subprocess.TimeoutExpired:
            res.update({"exit": "timeout"})
    else:
        res["detail"] = ap.stderr[-300:]
    sh("git -C /repo checkout -- . && git -C /repo reset -q")
    res["detected"] = res.get("exit") == 1 and bool(res.get("violation_lines"))
    json.dump(res, open(d + "detect.json", "w"), indent=1)
    print(mid, "detected" if res["detected"] else f"MISSED (exit={res.get('exit')})", flush=True)
# summary
rows = []
for d in dirs:
    mid = os.path.basename(d.rstrip("/"))
    if not os.path.exists(d + "meta.json"): continue
    meta = json.load(open(d + "meta.json"))
    det = json.load(open(d + "detect.json")) if os.path.exists(d + "detect.json") else {}
    conf = json.load(open(d + "confirm.json")) if os.path.exists(d + "confirm.json") else {}
    note = json.load(open(d + "note.json")).get("note", "") if os.path.exists(d + "note.json") else ""
    rows.append(f"| {mid} | {meta['summary'][:110].replace('|','/')} | {conf.get('confirmed','?')} | {'**caught**' if det.get('detected') else ('missed' if det else 'not run')} | {'; '.join(det.get('reproduces', []))[:160].replace('|','/')} {note} |")
open(f"{V}/seeded/SUMMARY.md", "w").write("| mutant | change | confirmed | quick check | caught by / note |\n|---|---|---|---|---|\n" + "\n".join(rows) + "\n")
