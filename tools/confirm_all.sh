#!/usr/bin/env bash
# confirm every seeded mutant that has no confirm.json yet (sequential, low priority)
for d in /verif/seeded/*/; do
  [ -f "$d/confirm.json" ] && continue
  echo "=== $d"; nice -n 10 /verif/tools/confirm_mutant.sh "$d" 2>&1 | tail -3
done
