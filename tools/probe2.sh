#!/usr/bin/env bash
# Test harnesses against a CLEAN second checkout (/tmp/repo2 = /repo HEAD) while /repo is busy with mutants.
# usage: probe2.sh <feature> <module::harness> [extra cargo-kani args...]
set -u
FEAT=$1; H=$2; shift 2
git -C /tmp/repo2 checkout -q --detach $(git -C /repo rev-parse HEAD) 2>/dev/null
rsync -a --delete --exclude target /verif/kani/ /tmp/kani2/
sed -i 's|/repo/crates|/tmp/repo2/crates|g' /tmp/kani2/Cargo.toml
cp /tmp/repo2/Cargo.lock /tmp/kani2/Cargo.lock
cd /tmp/kani2 && CARGO_NET_OFFLINE=true CARGO_TARGET_DIR=/tmp/kani2_target bash -c "ulimit -v 16000000; timeout 2400 cargo kani --features $FEAT --harness $H --exact -Z unstable-options --export-json /tmp/kani2_$FEAT.json $*" > /tmp/kani2_last.log 2>&1
python3 - <<PY
import json,collections
try:
    d=json.load(open('/tmp/kani2_$FEAT.json'))
    r=d['verification_results']['results'][0]
    cs=r['checks']
    print(r['status'], dict(collections.Counter(c['status'] for c in cs)))
    for c in cs:
        if c['status']=='Failure': print('  FAIL', c['function'][:90],'|',c['description'][:120],'|',c['location'].get('line'))
except Exception as e:
    print('no json', e)
PY
grep -E "^error|Out of memory|ran out|VERIFICATION|Verification Time" /tmp/kani2_last.log | cut -c1-200 | tail -5
