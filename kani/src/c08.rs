//! C08 — fault handling. K1: decision tables; K2: safe state reaches the image and every driver.
use crate::common::fixed_random_state;
use trust_runtime::error::RuntimeError;
use trust_runtime::io::{IoAddress, IoDriver, IoSafeState, IoSize};
use trust_runtime::memory::IoArea;
use trust_runtime::value::Value;
use trust_runtime::verif_runtime::io_subsystem as ios;
use trust_runtime::watchdog::{FaultAction, FaultDecision, FaultPolicy, WatchdogAction};

// @verif prop=C08 kernel=K1 tiers=quick,thorough timeout=600
// @verif what=fault decision tables: policy safe_halt => safe state applied and action SafeHalt; watchdog halt/safe_halt => safe state applied; restart never applies it and never halts silently
// @verif fns=watchdog::FaultDecision::{from_fault_policy,from_watchdog}
// @verif bound=all FaultPolicy and WatchdogAction values
#[kani::proof]
fn c08_fault_decision_tables() {
    let k: u8 = kani::any();
    let policy = match k % 3 { 0 => FaultPolicy::Halt, 1 => FaultPolicy::SafeHalt, _ => FaultPolicy::Restart };
    let d = FaultDecision::from_fault_policy(policy);
    match policy {
        FaultPolicy::SafeHalt => { assert!(d.apply_safe_state, "C08: safe_halt policy does not apply the safe state"); assert!(d.action == FaultAction::SafeHalt); }
        FaultPolicy::Halt => assert!(d.action == FaultAction::Halt),
        FaultPolicy::Restart => assert!(d.action == FaultAction::Restart),
    }
    let action = match k % 3 { 0 => WatchdogAction::Halt, 1 => WatchdogAction::SafeHalt, _ => WatchdogAction::Restart };
    let w = FaultDecision::from_watchdog(action);
    match action {
        WatchdogAction::Halt => { assert!(w.apply_safe_state, "C08: watchdog halt does not apply the safe state"); assert!(w.action == FaultAction::Halt); }
        WatchdogAction::SafeHalt => { assert!(w.apply_safe_state, "C08: watchdog safe_halt does not apply the safe state"); assert!(w.action == FaultAction::SafeHalt); }
        WatchdogAction::Restart => assert!(w.action == FaultAction::Restart),
    }
    kani::cover!(k % 3 == 1);
    kani::cover!(k % 3 == 2);
}

/// Recording driver: remembers the last image it was handed; fails on demand (after recording).
struct Rec { slot: &'static mut [u8; 4], called: &'static mut bool, fail: bool }
impl IoDriver for Rec {
    fn read_inputs(&mut self, _inputs: &mut [u8]) -> Result<(), RuntimeError> { Ok(()) }
    fn write_outputs(&mut self, outputs: &[u8]) -> Result<(), RuntimeError> {
        *self.called = true;
        let mut i = 0;
        while i < 4 && i < outputs.len() { self.slot[i] = outputs[i]; i += 1; }
        if self.fail { Err(RuntimeError::WatchdogTimeout) } else { Ok(()) }
    }
}

static mut SLOT_A: [u8; 4] = [0; 4];
static mut SLOT_B: [u8; 4] = [0; 4];
static mut CALLED_A: bool = false;
static mut CALLED_B: bool = false;

// (probed, not registered: IoSafeState::apply with a single %QB entry exhausts 16 GB - the entry's `Value` is
//  cloned out of a heap Vec, CBMC no longer folds its tag and explores the clone glue of every variant.
//  The image side of the safe state is covered through IoInterface::write by the C07 locality harnesses.)

// @verif prop=C08 kernel=K2 tiers=quick,thorough timeout=2400 unwind=1 stubbing=yes mem=16 loops=c08:6,apply_safe_state:4,write_outputs:6,Iterator:4,IterMut:4,resize:6,extend_with:6,memcmp:6,compare_bytes:6
// @verif what=apply_safe_state hands the output image to EVERY registered driver, also when an earlier driver fails, and reports the failure
// @verif fns=runtime::io_subsystem::IoSubsystem::{apply_safe_state,add_driver}
// @verif bound=4-byte output image with symbolic content; empty safe-state list; 2 recording drivers, the first of which fails or not (symbolic)
// @verif stub=std::hash::RandomState::new -> fixed keys
#[kani::proof]
#[kani::stub(std::hash::RandomState::new, fixed_random_state)]
fn c08_safe_state_image_reaches_every_driver() {
    let mut s = ios::new_subsystem();
    ios::resize(&mut s, 0, 4, 0);
    let img: [u8; 4] = kani::any();
    { let out = ios::interface_mut(&mut s).outputs_mut(); let mut i = 0; while i < 4 { out[i] = img[i]; i += 1; } }
    let fail_a: bool = kani::any();
    unsafe {
        ios::add_driver(&mut s, Box::new(Rec { slot: &mut *core::ptr::addr_of_mut!(SLOT_A), called: &mut *core::ptr::addr_of_mut!(CALLED_A), fail: fail_a }));
        ios::add_driver(&mut s, Box::new(Rec { slot: &mut *core::ptr::addr_of_mut!(SLOT_B), called: &mut *core::ptr::addr_of_mut!(CALLED_B), fail: false }));
    }
    let r = ios::apply_safe_state(&mut s);
    unsafe {
        assert!(CALLED_A, "C08: first driver was not handed the safe-state image");
        assert!(CALLED_B, "C08: a driver was not handed the safe-state image because another driver failed");
        assert!(SLOT_B[2] == img[2] && SLOT_B[0] == img[0], "C08: the image delivered to a driver is not the output image");
    }
    if fail_a { assert!(r.is_err(), "C08: a failing driver was not reported"); }
    kani::cover!(fail_a);
    kani::cover!(!fail_a);
    std::mem::forget(r);
    std::mem::forget(s);
}
