//! C11 — STBC container. Tier A kernels: BytecodeReader bounds (K1a), section-table validation (K1b),
//! jump-target arithmetic of the instruction-stream validator (K3).
use crate::common::fixed_random_state;
use trust_runtime::bytecode::verif_exports::decode::{reader_read_x, validate_section_entries_x};
use trust_runtime::bytecode::verif_exports::validate::validate_instruction_stream_x;
use trust_runtime::bytecode::{BytecodeError, SectionEntry};

// @verif prop=C11 kernel=K1 tiers=quick,thorough timeout=900
// @verif what=BytecodeReader: a read of 1/2/4/8/n bytes at any cursor of any buffer either fails with UnexpectedEof (exactly when it would pass the end) or returns the little-endian value and advances the cursor by the width; never an out-of-bounds access or overflow
// @verif fns=bytecode::reader::BytecodeReader::{new,read_bytes,read_u8,read_u16,read_u32,read_u64,pos}
// @verif bound=buffers of 0..=12 symbolic bytes (length symbolic), cursor 0..=12, width in {1,2,4,8} or read_bytes(n) with n any usize <= 2^32
#[kani::proof]
#[kani::unwind(14)]
fn c11_reader_bounds() {
    const L: usize = 12;
    let buf: [u8; L] = kani::any();
    let len: usize = kani::any();
    kani::assume(len <= L);
    let data = &buf[..len];
    let cursor: usize = kani::any();
    kani::assume(cursor <= len);
    let wsel: u8 = kani::any();
    let n: usize = kani::any();
    kani::assume(n <= (1usize << 32));
    let (width, need) = match wsel % 5 { 0 => (1u8, 1usize), 1 => (2, 2), 2 => (4, 4), 3 => (8, 8), _ => (0, n) };
    let r = reader_read_x(data, cursor, width, n);
    let fits = need <= len - cursor;
    match &r {
        Ok((v, pos)) => {
            assert!(fits, "C11: reader returned data past the end of the buffer");
            assert!(*pos == cursor + need, "C11: cursor not advanced by the width read");
            if width != 0 {
                let mut expect: u64 = 0;
                let mut i = 0;
                while i < need { expect |= (data[cursor + i] as u64) << (8 * i); i += 1; }
                assert!(*v == expect, "C11: reader value is not the little-endian decoding");
            } else {
                assert!(*v as usize == n);
            }
        }
        Err(e) => {
            assert!(!fits, "C11: reader refused a read that fits");
            assert!(matches!(e, BytecodeError::UnexpectedEof), "C11: wrong reader error");
        }
    }
    kani::cover!(r.is_ok() && width == 8 && cursor == 4 && len == 12);
    kani::cover!(r.is_err() && width == 2);
    std::mem::forget(r);
}

// @verif prop=C11 kernel=K1 tiers=quick,thorough timeout=1200 unwind=1 loops=validate_section_entries:4,insertion_sort:4,insert_tail:4,sort:4,Iterator:4,to_vec:4
// @verif what=validate_section_entries: accepted section tables are 4-aligned, inside the file and pairwise disjoint (so the later payload slicing bytes[start..end] cannot go out of bounds); never panics
// @verif fns=bytecode::decode::validate_section_entries
// @verif bound=tables of 2 entries with arbitrary u32 offset/length, arbitrary file length <= 2^33
#[kani::proof]
fn c11_section_table_validation() {
    let e0 = SectionEntry { id: kani::any(), flags: kani::any(), offset: kani::any(), length: kani::any() };
    let e1 = SectionEntry { id: kani::any(), flags: kani::any(), offset: kani::any(), length: kani::any() };
    let file_len: usize = kani::any();
    kani::assume(file_len <= (1usize << 33));
    let (o0, l0, o1, l1) = (e0.offset as u64, e0.length as u64, e1.offset as u64, e1.length as u64);
    let entries = [e0, e1];
    let r = validate_section_entries_x(file_len, &entries);
    if r.is_ok() {
        assert!(o0 % 4 == 0 && o1 % 4 == 0, "C11: misaligned section accepted");
        assert!(o0 + l0 <= file_len as u64 && o1 + l1 <= file_len as u64, "C11: section outside the file accepted");
        assert!(o0 + l0 <= o1 || o1 + l1 <= o0, "C11: overlapping sections accepted");
    }
    kani::cover!(r.is_ok() && l0 > 0 && l1 > 0 && o1 < o0);
    kani::cover!(r.is_err());
    std::mem::forget(r);
    std::mem::forget(entries);
}

fn jump_code<const N: usize>() -> [u8; N] {
    kani::any()
}

// @verif prop=C11 kernel=K3 tiers=quick,thorough timeout=1800 unwind=1 stubbing=yes loops=validate_instruction_stream:4,simd_bitmask_impl:17,Iterator:4,IntoIter:4,extend:4,fold:4,for_each:4
// @verif what=validate_instruction_stream on a code buffer holding one jump instruction with an arbitrary i32 offset: never panics (target arithmetic), and accepts only targets that are an instruction start or the end of the code
// @verif fns=bytecode::validate::validate_instruction_stream
// @verif bound=code = [jump opcode 0x02][i32 offset] (5 bytes, one instruction); offset arbitrary i32
// @verif stub=std::hash::RandomState::new -> fixed keys (HashSet of instruction starts)
#[kani::proof]
#[kani::stub(std::hash::RandomState::new, fixed_random_state)]
fn c11_jump_target_arithmetic() {
    // probed: a second instruction (two entries in the HashSet of starts) exhausts 12 GB
    let mut code: [u8; 5] = kani::any();
    code[0] = 0x02;
    let offset = i32::from_le_bytes([code[1], code[2], code[3], code[4]]);
    let r = validate_instruction_stream_x(&code);
    let target = 5i64 + offset as i64;
    if r.is_ok() {
        assert!(target == 0 || target == 5, "C11: jump to a non-instruction offset accepted");
    } else {
        assert!(!(target == 0 || target == 5), "C11: valid jump target rejected");
    }
    kani::cover!(r.is_ok() && target == 0);
    kani::cover!(r.is_err() && offset == i32::MAX);
    std::mem::forget(r);
}
