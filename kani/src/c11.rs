//! C11 — STBC container. Tier A kernels: BytecodeReader bounds (K1a), section-table validation (K1b),
//! jump-target arithmetic of the instruction-stream validator (K3).
use crate::common::fixed_random_state;
use trust_runtime::bytecode::verif_exports::decode::{reader_read_x, validate_section_entries_x};
use trust_runtime::bytecode::verif_exports::validate::validate_instruction_stream_x;
use trust_runtime::bytecode::{BytecodeError, SectionEntry};

// @verif prop=C11 kernel=K1 tiers=quick,thorough timeout=900
// @verif what=BytecodeReader: a read of 1/2/4/8/n bytes at any cursor of any buffer either fails with UnexpectedEof (exactly when it would pass the end) or returns the little-endian value and advances the cursor by the width; never an out-of-bounds access or overflow
// @verif fns=bytecode::reader::BytecodeReader::{new,read_bytes,read_u8,read_u16,read_u32,read_u64,pos}
// @verif bound=buffers of 0..=12 symbolic bytes (length symbolic), cursor 0..=12, width in {1,2,4,8} or read_bytes(n) with n any usize <= 2^32
#[kani::proof]
#[kani::unwind(14)]
fn c11_reader_bounds() {
    const L: usize = 12;
    let buf: [u8; L] = kani::any();
    let len: usize = kani::any();
    kani::assume(len <= L);
    let data = &buf[..len];
    let cursor: usize = kani::any();
    kani::assume(cursor <= len);
    let wsel: u8 = kani::any();
    let n: usize = kani::any();
    kani::assume(n <= (1usize << 32));
    let (width, need) = match wsel % 5 { 0 => (1u8, 1usize), 1 => (2, 2), 2 => (4, 4), 3 => (8, 8), _ => (0, n) };
    let r = reader_read_x(data, cursor, width, n);
    let fits = need <= len - cursor;
    match &r {
        Ok((v, pos)) => {
            assert!(fits, "C11: reader returned data past the end of the buffer");
            assert!(*pos == cursor + need, "C11: cursor not advanced by the width read");
            if width != 0 {
                let mut expect: u64 = 0;
                let mut i = 0;
                while i < need { expect |= (data[cursor + i] as u64) << (8 * i); i += 1; }
                assert!(*v == expect, "C11: reader value is not the little-endian decoding");
            } else {
                assert!(*v as usize == n);
            }
        }
        Err(e) => {
            assert!(!fits, "C11: reader refused a read that fits");
            assert!(matches!(e, BytecodeError::UnexpectedEof), "C11: wrong reader error");
        }
    }
    kani::cover!(r.is_ok() && width == 8 && cursor == 4 && len == 12);
    kani::cover!(r.is_err() && width == 2);
    std::mem::forget(r);
}

// @verif prop=C11 kernel=K1 tiers=quick,thorough timeout=1200 unwind=1 loops=validate_section_entries:4,insertion_sort:4,insert_tail:4,sort:4,Iterator:4,to_vec:4
// @verif what=validate_section_entries: accepted section tables are 4-aligned, inside the file and pairwise disjoint (so the later payload slicing bytes[start..end] cannot go out of bounds); never panics
// @verif fns=bytecode::decode::validate_section_entries
// @verif bound=tables of 2 entries with arbitrary u32 offset/length, arbitrary file length <= 2^33
#[kani::proof]
fn c11_section_table_validation() {
    let e0 = SectionEntry { id: kani::any(), flags: kani::any(), offset: kani::any(), length: kani::any() };
    let e1 = SectionEntry { id: kani::any(), flags: kani::any(), offset: kani::any(), length: kani::any() };
    let file_len: usize = kani::any();
    kani::assume(file_len <= (1usize << 33));
    let (o0, l0, o1, l1) = (e0.offset as u64, e0.length as u64, e1.offset as u64, e1.length as u64);
    let entries = [e0, e1];
    let r = validate_section_entries_x(file_len, &entries);
    if r.is_ok() {
        assert!(o0 % 4 == 0 && o1 % 4 == 0, "C11: misaligned section accepted");
        assert!(o0 + l0 <= file_len as u64 && o1 + l1 <= file_len as u64, "C11: section outside the file accepted");
        assert!(o0 + l0 <= o1 || o1 + l1 <= o0, "C11: overlapping sections accepted");
    }
    kani::cover!(r.is_ok() && l0 > 0 && l1 > 0 && o1 < o0);
    kani::cover!(r.is_err());
    std::mem::forget(r);
    std::mem::forget(entries);
}

fn jump_code<const N: usize>() -> [u8; N] {
    kani::any()
}

// @verif prop=C11 kernel=K3 tiers=quick,thorough timeout=1800 unwind=1 stubbing=yes loops=validate_instruction_stream:4,simd_bitmask_impl:17,Iterator:4,IntoIter:4,extend:4,fold:4,for_each:4
// @verif what=validate_instruction_stream on a code buffer holding one jump instruction with an arbitrary i32 offset: never panics (target arithmetic), and accepts only targets that are an instruction start or the end of the code
// @verif fns=bytecode::validate::validate_instruction_stream
// @verif bound=code = [jump opcode 0x02][i32 offset] (5 bytes, one instruction); offset arbitrary i32
// @verif stub=std::hash::RandomState::new -> fixed keys (HashSet of instruction starts)
#[kani::proof]
#[kani::stub(std::hash::RandomState::new, fixed_random_state)]
fn c11_jump_target_arithmetic() {
    // probed: a second instruction (two entries in the HashSet of starts) exhausts 12 GB
    let mut code: [u8; 5] = kani::any();
    code[0] = 0x02;
    let offset = i32::from_le_bytes([code[1], code[2], code[3], code[4]]);
    let r = validate_instruction_stream_x(&code);
    let target = 5i64 + offset as i64;
    if r.is_ok() {
        assert!(target == 0 || target == 5, "C11: jump to a non-instruction offset accepted");
    } else {
        assert!(!(target == 0 || target == 5), "C11: valid jump target rejected");
    }
    kani::cover!(r.is_ok() && target == 0);
    kani::cover!(r.is_err() && offset == i32::MAX);
    std::mem::forget(r);
}

// ---------------------------------------------------------------------------------------
// K2: section decoders on arbitrary payloads, with the allocation monitor
// ---------------------------------------------------------------------------------------
use trust_runtime::bytecode::verif_exports::decode::decode_section_data_x;

static mut PAYLOAD_LEN: usize = 0;

/// Stub for `Vec::<T>::with_capacity`: the request must be proportional to the payload.
pub fn monitored_with_capacity<T>(capacity: usize) -> Vec<T> {
    let bytes = (capacity as u128) * (core::mem::size_of::<T>() as u128);
    let budget = unsafe { PAYLOAD_LEN as u128 } * 128 + 256;
    assert!(bytes <= budget, "C11: a section decoder requests an allocation that is not proportional to the payload size");
    // keep the capacity guarantee callers may rely on (std writes through raw pointers after with_capacity);
    // reserve_exact is not stubbed. A request over budget has already failed the assertion above.
    let mut v = Vec::new();
    v.reserve_exact(if bytes <= budget { capacity } else { 0 });
    v
}

fn section_one<const N: usize>(id: u16, minor: u16) {
    let buf: [u8; N] = kani::any();
    unsafe { PAYLOAD_LEN = N; }
    let r = decode_section_data_x(1, minor, id, &buf);
    kani::cover!(r.is_err());
    std::mem::forget(r);
}

// @verif prop=C11 kernel=K2 tiers=quick,thorough timeout=2400 unwind=1 stubbing=yes mem=16 replay_native=stbc-string-table loops=decode_string_table:3,decode_section_data:3,Iterator:3,from_utf8:6,run_utf8_validation:6,new:26,drop_glue::<[smol_str::SmolStr]>:3
// @verif what=string-table section decoder on arbitrary 4- and 8-byte payloads: Ok/Err, never a panic, and its Vec::with_capacity(count) request stays proportional to the payload (count is an untrusted u32)
// @verif fns=bytecode::decode::{decode_section_data,decode_string_table}, bytecode::reader::BytecodeReader
// @verif bound=every payload of 4 and of 8 bytes, format minor version 0 and 1
// @verif stub=alloc::vec::Vec::<T>::with_capacity -> allocation monitor (asserts cap*size_of::<T>() <= 128*|payload|+256, then reserves the requested capacity); alloc::fmt::format -> empty String
#[kani::proof]
#[kani::stub(std::vec::Vec::with_capacity, monitored_with_capacity)]
#[kani::stub(alloc::fmt::format, crate::common::empty_format)]
fn c11_string_table_decoder_bounded_allocation() {
    let minor: u16 = if kani::any() { 0 } else { 1 };
    if kani::any() { section_one::<4>(1, minor); } else { section_one::<8>(1, minor); }
}

// (probed, not registered: the TYPE_TABLE section decoder exhausts 16 GB even for 4- and 8-byte payloads - offsets table +
//  nested entry readers; outside the claim.)

// @verif prop=C11 kernel=K2 tiers=thorough timeout=3000 unwind=1 stubbing=yes mem=16 replay_native=stbc-string-table loops=decode_section_data:4,decode_type_table:4,decode_type_entry:4,decode_string_table:4,Iterator:4,from_utf8:6,run_utf8_validation:6,new:26,drop_glue::<[:4,memcmp:6,compare_bytes:6,to_vec:14
// @verif what=const_pool section decoder (section id 3) on arbitrary 4- and 12-byte payloads: Ok/Err, never a panic or out-of-bounds read, every Vec::with_capacity(count) request proportional to the payload
// @verif fns=bytecode::decode::decode_section_data (section id 3), bytecode::reader::BytecodeReader
// @verif bound=every payload of 4 and of 12 bytes, format minor version 0 and 1
// @verif stub=alloc::vec::Vec::<T>::with_capacity -> allocation monitor; alloc::fmt::format -> empty String
#[kani::proof]
#[kani::stub(std::vec::Vec::with_capacity, monitored_with_capacity)]
#[kani::stub(alloc::fmt::format, crate::common::empty_format)]
fn c11_section_const_pool_decoder_total() {
    let minor: u16 = if kani::any() { 0 } else { 1 };
    if kani::any() { section_one::<4>(3, minor); } else { section_one::<12>(3, minor); }
}

// @verif prop=C11 kernel=K2 tiers=quick,thorough timeout=3000 unwind=1 stubbing=yes mem=16 replay_native=stbc-string-table loops=decode_section_data:4,decode_type_table:4,decode_type_entry:4,decode_string_table:4,Iterator:4,from_utf8:6,run_utf8_validation:6,new:26,drop_glue::<[:4,memcmp:6,compare_bytes:6,to_vec:14
// @verif what=ref_table section decoder (section id 4) on arbitrary 4- and 12-byte payloads: Ok/Err, never a panic or out-of-bounds read, every Vec::with_capacity(count) request proportional to the payload
// @verif fns=bytecode::decode::decode_section_data (section id 4), bytecode::reader::BytecodeReader
// @verif bound=every payload of 4 and of 12 bytes, format minor version 0 and 1
// @verif stub=alloc::vec::Vec::<T>::with_capacity -> allocation monitor; alloc::fmt::format -> empty String
#[kani::proof]
#[kani::stub(std::vec::Vec::with_capacity, monitored_with_capacity)]
#[kani::stub(alloc::fmt::format, crate::common::empty_format)]
fn c11_section_ref_table_decoder_total() {
    let minor: u16 = if kani::any() { 0 } else { 1 };
    if kani::any() { section_one::<4>(4, minor); } else { section_one::<12>(4, minor); }
}

// @verif prop=C11 kernel=K2 tiers=thorough timeout=3000 unwind=1 stubbing=yes mem=16 replay_native=stbc-string-table loops=decode_section_data:4,decode_type_table:4,decode_type_entry:4,decode_string_table:4,Iterator:4,from_utf8:6,run_utf8_validation:6,new:26,drop_glue::<[:4,memcmp:6,compare_bytes:6,to_vec:14
// @verif what=pou_index section decoder (section id 5) on arbitrary 4- and 12-byte payloads: Ok/Err, never a panic or out-of-bounds read, every Vec::with_capacity(count) request proportional to the payload
// @verif fns=bytecode::decode::decode_section_data (section id 5), bytecode::reader::BytecodeReader
// @verif bound=every payload of 4 and of 12 bytes, format minor version 0 and 1
// @verif stub=alloc::vec::Vec::<T>::with_capacity -> allocation monitor; alloc::fmt::format -> empty String
#[kani::proof]
#[kani::stub(std::vec::Vec::with_capacity, monitored_with_capacity)]
#[kani::stub(alloc::fmt::format, crate::common::empty_format)]
fn c11_section_pou_index_decoder_total() {
    let minor: u16 = if kani::any() { 0 } else { 1 };
    if kani::any() { section_one::<4>(5, minor); } else { section_one::<12>(5, minor); }
}

// @verif prop=C11 kernel=K2 tiers=thorough timeout=3000 unwind=1 stubbing=yes mem=16 replay_native=stbc-string-table loops=decode_section_data:4,decode_type_table:4,decode_type_entry:4,decode_string_table:4,Iterator:4,from_utf8:6,run_utf8_validation:6,new:26,drop_glue::<[:4,memcmp:6,compare_bytes:6,to_vec:14
// @verif what=resource_meta section decoder (section id 7) on arbitrary 4- and 12-byte payloads: Ok/Err, never a panic or out-of-bounds read, every Vec::with_capacity(count) request proportional to the payload
// @verif fns=bytecode::decode::decode_section_data (section id 7), bytecode::reader::BytecodeReader
// @verif bound=every payload of 4 and of 12 bytes, format minor version 0 and 1
// @verif stub=alloc::vec::Vec::<T>::with_capacity -> allocation monitor; alloc::fmt::format -> empty String
#[kani::proof]
#[kani::stub(std::vec::Vec::with_capacity, monitored_with_capacity)]
#[kani::stub(alloc::fmt::format, crate::common::empty_format)]
fn c11_section_resource_meta_decoder_total() {
    let minor: u16 = if kani::any() { 0 } else { 1 };
    if kani::any() { section_one::<4>(7, minor); } else { section_one::<12>(7, minor); }
}

// @verif prop=C11 kernel=K2 tiers=quick,thorough timeout=3000 unwind=1 stubbing=yes mem=16 replay_native=stbc-string-table loops=decode_section_data:4,decode_type_table:4,decode_type_entry:4,decode_string_table:4,Iterator:4,from_utf8:6,run_utf8_validation:6,new:26,drop_glue::<[:4,memcmp:6,compare_bytes:6,to_vec:14
// @verif what=io_map section decoder (section id 8) on arbitrary 4- and 12-byte payloads: Ok/Err, never a panic or out-of-bounds read, every Vec::with_capacity(count) request proportional to the payload
// @verif fns=bytecode::decode::decode_section_data (section id 8), bytecode::reader::BytecodeReader
// @verif bound=every payload of 4 and of 12 bytes, format minor version 0 and 1
// @verif stub=alloc::vec::Vec::<T>::with_capacity -> allocation monitor; alloc::fmt::format -> empty String
#[kani::proof]
#[kani::stub(std::vec::Vec::with_capacity, monitored_with_capacity)]
#[kani::stub(alloc::fmt::format, crate::common::empty_format)]
fn c11_section_io_map_decoder_total() {
    let minor: u16 = if kani::any() { 0 } else { 1 };
    if kani::any() { section_one::<4>(8, minor); } else { section_one::<12>(8, minor); }
}

// @verif prop=C11 kernel=K2 tiers=quick,thorough timeout=3000 unwind=1 stubbing=yes mem=16 replay_native=stbc-string-table loops=decode_section_data:4,decode_type_table:4,decode_type_entry:4,decode_string_table:4,Iterator:4,from_utf8:6,run_utf8_validation:6,new:26,drop_glue::<[:4,memcmp:6,compare_bytes:6,to_vec:14
// @verif what=debug_map section decoder (section id 9) on arbitrary 4- and 12-byte payloads: Ok/Err, never a panic or out-of-bounds read, every Vec::with_capacity(count) request proportional to the payload
// @verif fns=bytecode::decode::decode_section_data (section id 9), bytecode::reader::BytecodeReader
// @verif bound=every payload of 4 and of 12 bytes, format minor version 0 and 1
// @verif stub=alloc::vec::Vec::<T>::with_capacity -> allocation monitor; alloc::fmt::format -> empty String
#[kani::proof]
#[kani::stub(std::vec::Vec::with_capacity, monitored_with_capacity)]
#[kani::stub(alloc::fmt::format, crate::common::empty_format)]
fn c11_section_debug_map_decoder_total() {
    let minor: u16 = if kani::any() { 0 } else { 1 };
    if kani::any() { section_one::<4>(9, minor); } else { section_one::<12>(9, minor); }
}

// @verif prop=C11 kernel=K2 tiers=quick,thorough timeout=3000 unwind=1 stubbing=yes mem=16 replay_native=stbc-string-table loops=decode_section_data:4,decode_type_table:4,decode_type_entry:4,decode_string_table:4,Iterator:4,from_utf8:6,run_utf8_validation:6,new:26,drop_glue::<[:4,memcmp:6,compare_bytes:6,to_vec:14
// @verif what=var_meta section decoder (section id 11) on arbitrary 4- and 12-byte payloads: Ok/Err, never a panic or out-of-bounds read, every Vec::with_capacity(count) request proportional to the payload
// @verif fns=bytecode::decode::decode_section_data (section id 11), bytecode::reader::BytecodeReader
// @verif bound=every payload of 4 and of 12 bytes, format minor version 0 and 1
// @verif stub=alloc::vec::Vec::<T>::with_capacity -> allocation monitor; alloc::fmt::format -> empty String
#[kani::proof]
#[kani::stub(std::vec::Vec::with_capacity, monitored_with_capacity)]
#[kani::stub(alloc::fmt::format, crate::common::empty_format)]
fn c11_section_var_meta_decoder_total() {
    let minor: u16 = if kani::any() { 0 } else { 1 };
    if kani::any() { section_one::<4>(11, minor); } else { section_one::<12>(11, minor); }
}

// @verif prop=C11 kernel=K2 tiers=quick,thorough timeout=3000 unwind=1 stubbing=yes mem=16 replay_native=stbc-string-table loops=decode_section_data:4,decode_type_table:4,decode_type_entry:4,decode_string_table:4,Iterator:4,from_utf8:6,run_utf8_validation:6,new:26,drop_glue::<[:4,memcmp:6,compare_bytes:6,to_vec:14
// @verif what=retain_init section decoder (section id 12) on arbitrary 4- and 12-byte payloads: Ok/Err, never a panic or out-of-bounds read, every Vec::with_capacity(count) request proportional to the payload
// @verif fns=bytecode::decode::decode_section_data (section id 12), bytecode::reader::BytecodeReader
// @verif bound=every payload of 4 and of 12 bytes, format minor version 0 and 1
// @verif stub=alloc::vec::Vec::<T>::with_capacity -> allocation monitor; alloc::fmt::format -> empty String
#[kani::proof]
#[kani::stub(std::vec::Vec::with_capacity, monitored_with_capacity)]
#[kani::stub(alloc::fmt::format, crate::common::empty_format)]
fn c11_section_retain_init_decoder_total() {
    let minor: u16 = if kani::any() { 0 } else { 1 };
    if kani::any() { section_one::<4>(12, minor); } else { section_one::<12>(12, minor); }
}
