//! C18 — control endpoint: permission table vs dispatcher (K1), role lattice (K2).
use trust_runtime::control::verif_export::{is_debug_request_x, required_role_config_set_one_key_x, required_role_x};
use trust_runtime::security::AccessRole;

include!("/verif/.work/generated/c18_table.rs");

fn check_arm(name: &str, state_changing: bool, debug_class: bool) {
    let required = required_role_x(name);
    if state_changing {
        assert!(required != AccessRole::Viewer, "C18: a state-changing request type is executable with the viewer role");
        assert!(required.allows(AccessRole::Operator), "C18: required role of a state-changing request is below operator");
    }
    if debug_class {
        assert!(is_debug_request_x(name), "C18: a debug-class request is not refused while debugging is disabled");
    }
}

// @verif prop=C18 kernel=K1 tiers=quick,thorough timeout=1200
// @verif what=for every request name the dispatcher of the CURRENT source accepts: a handler that is not on the read-only list requires more than viewer; a request dispatched by the debug/variables handler files is covered by the debug-disabled gate
// @verif fns=control::{required_role_for_control_request,is_debug_request}
// @verif bound=all dispatcher arms extracted from control/handlers/*.rs at check time (symbolic selector over the generated table)
// @verif assume=tables/c18_readonly_handlers.txt lists exactly the handlers that only read state (specification side)
// @verif outside=resolve_request_role and the gate order in handle_request_value (need a full ControlState: threads, channels, mutexes); what handlers do once dispatched; JSON parsing
#[kani::proof]
#[kani::unwind(40)]
fn c18_permission_table_covers_dispatcher() {
    let sel: usize = kani::any();
    kani::assume(sel < NDISPATCH);
    for_each_dispatch_arm!(sel, check_arm);
    kani::cover!(sel == 0);
    kani::cover!(sel == NDISPATCH - 1);
}

fn role(k: u8) -> AccessRole {
    match k % 4 { 0 => AccessRole::Viewer, 1 => AccessRole::Operator, 2 => AccessRole::Engineer, _ => AccessRole::Admin }
}

// @verif prop=C18 kernel=K2 tiers=quick,thorough timeout=600
// @verif what=AccessRole::allows is the total order Viewer < Operator < Engineer < Admin: reflexive, antisymmetric, transitive, total, and consistent with the documented ranking
// @verif fns=security::AccessRole::allows
// @verif bound=all 4x4x4 role triples
#[kani::proof]
fn c18_role_order_is_monotone() {
    let (a, b, c): (u8, u8, u8) = (kani::any(), kani::any(), kani::any());
    let (ra, rb, rc) = (role(a), role(b), role(c));
    assert!(ra.allows(ra), "C18: role order not reflexive");
    assert!(ra.allows(rb) || rb.allows(ra), "C18: role order not total");
    if ra.allows(rb) && rb.allows(ra) { assert!(a % 4 == b % 4, "C18: role order not antisymmetric"); }
    if ra.allows(rb) && rb.allows(rc) { assert!(ra.allows(rc), "C18: role order not transitive"); }
    assert!(ra.allows(rb) == (a % 4 >= b % 4), "C18: allows() disagrees with Viewer < Operator < Engineer < Admin");
    kani::cover!(a % 4 == 3 && b % 4 == 0);
    kani::cover!(a % 4 == 0 && b % 4 == 3);
}

// @verif prop=C18 kernel=K1 tiers=quick,thorough timeout=1200 unwind=1 loops=serde_json::map::Keys:3,btree_map::IntoIter:3,memcmp:24,compare_bytes:24
// @verif what=config.set: a params object holding one of the four secret-bearing keys requires admin, any other single key requires engineer, never less
// @verif fns=control::{required_role_for_control_request,required_role_for_config_set}
// @verif bound=the four secret-bearing keys and three other keys (concrete per call site)
#[kani::proof]
fn c18_config_set_secret_keys_need_admin() {
    let sel: u8 = kani::any();
    let (r, secret) = match sel % 7 {
        0 => (required_role_config_set_one_key_x("control.auth_token"), true),
        1 => (required_role_config_set_one_key_x("mesh.auth_token"), true),
        2 => (required_role_config_set_one_key_x("control.mode"), true),
        3 => (required_role_config_set_one_key_x("web.auth"), true),
        4 => (required_role_config_set_one_key_x("log.level"), false),
        5 => (required_role_config_set_one_key_x("control.auth_tokens"), false),
        _ => (required_role_config_set_one_key_x(""), false),
    };
    if secret { assert!(r == AccessRole::Admin, "C18: config.set of a secret-bearing key does not require admin"); }
    else { assert!(r == AccessRole::Engineer, "C18: config.set requires less than engineer"); }
    assert!(required_role_x("config.set") == AccessRole::Engineer);
    kani::cover!(secret);
    kani::cover!(!secret);
}
