//! Kani proof harnesses over the real trust-platform crates (path dependencies on /repo).
//! Every harness name starts with the id of the property it serves (c04_…); the driver
//! (/verif/check) reads the `// @verif` comment block above each harness.
#![allow(dead_code, unused_imports, unused_variables, unused_mut, clippy::all)]

extern crate alloc;
pub mod common;

#[cfg(all(kani, feature = "c04"))]
mod c04;

#[cfg(all(kani, any(feature = "c01", feature = "c02")))]
mod ops;

#[cfg(all(kani, any(feature = "c01", feature = "c02")))]
mod stdlibk;


#[cfg(all(kani, feature = "c07"))]
mod c07;

#[cfg(all(kani, feature = "c10"))]
mod c10;

#[cfg(all(kani, feature = "c18"))]
mod c18;

#[cfg(all(kani, feature = "c11"))]
mod c11;

#[cfg(all(kani, feature = "c08"))]
mod c08;

#[cfg(all(kani, any(feature = "c03", feature = "c01", feature = "c07")))]
mod c03;
