//! C19 — web IDE file API: path-normaliser kernel.
use trust_runtime::web::ide::verif_export::normalize_workspace_path_x;

fn check_normalised(n: &str) {
    let b = n.as_bytes();
    assert!(!b.is_empty(), "C19: empty normalised path");
    assert!(b[0] != b'/', "C19: normalised path is absolute");
    let mut start = 0usize;
    let mut i = 0usize;
    while i <= b.len() {
        if i == b.len() || b[i] == b'/' {
            let comp = &b[start..i];
            assert!(!comp.is_empty(), "C19: empty component in a normalised path");
            assert!(comp[0] != b'.', "C19: normalised path contains a '.', '..' or hidden component");
            start = i + 1;
        }
        i += 1;
    }
}

fn normaliser<const L: usize>() {
    let bytes: [u8; L] = kani::any();
    let len: usize = kani::any();
    kani::assume(len <= L);
    let Ok(s) = core::str::from_utf8(&bytes[..len]) else { return; };
    let r = normalize_workspace_path_x(s);
    if let Ok(n) = &r {
        check_normalised(n.as_str());
    }
    kani::cover!(r.is_ok());
    kani::cover!(r.is_err() && len == L);
    std::mem::forget(r);
}

// @verif prop=C19 kernel=K1 tiers=quick,thorough timeout=3000 mem=24
// @verif what=normalize_workspace_path: every accepted path is non-empty, relative and has no empty, '.', '..' or hidden (dot-prefixed) component, so joining it lexically onto the project root stays under the root
// @verif fns=web::ide::normalize_workspace_path
// @verif bound=every valid UTF-8 path string of <= 4 bytes over the full byte alphabet
#[kani::proof]
#[kani::unwind(7)]
fn c19_normaliser_4() {
    normaliser::<4>();
}
