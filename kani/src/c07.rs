//! C07 — process image. K1: address locality and little-endian encoding of IoInterface::read/write.
use crate::common::fixed_random_state;
use trust_runtime::error::RuntimeError;
use trust_runtime::io::{IoAddress, IoInterface, IoSize};
use trust_runtime::memory::IoArea;
use trust_runtime::value::Value;

const N: usize = 12;

/// DESIGN (probed): a symbolic area makes every image access a 3-way symbolic pointer and the
/// formula explodes (10.7M variables, solver out of memory); with the area concrete per call site the
/// same obligation is 1M variables and a few seconds. The area is therefore a symbolic selector over
/// three call sites, each with a concrete `IoArea`.
macro_rules! for_each_area {
    ($f:ident) => {{
        let k: u8 = kani::any();
        match k % 3 { 0 => $f(IoArea::Input), 1 => $f(IoArea::Output), _ => $f(IoArea::Memory) }
    }};
}

fn addr(area: IoArea, size: IoSize, byte: u32, bit: u8) -> IoAddress {
    IoAddress { area, size, byte, bit, path: vec![byte], wildcard: false }
}

fn fill(io: &mut IoInterface, img: &[[u8; N]; 3]) {
    io.resize(N, N, N);
    let mut i = 0;
    while i < N {
        io.inputs_mut()[i] = img[0][i];
        io.outputs_mut()[i] = img[1][i];
        io.memory_mut()[i] = img[2][i];
        i += 1;
    }
}

fn area_idx(a: IoArea) -> usize { match a { IoArea::Input => 0, IoArea::Output => 1, IoArea::Memory => 2 } }

fn image<'a>(io: &'a IoInterface, k: usize) -> &'a [u8] {
    match k { 0 => io.inputs(), 1 => io.outputs(), _ => io.memory() }
}

/// Every byte of every image other than `expect`-ed span bytes is unchanged; lengths unchanged.
fn check_images(io: &IoInterface, before: &[[u8; N]; 3], area: usize, byte: usize, span: &[u8], width: usize) {
    let mut k = 0;
    while k < 3 {
        let img = image(io, k);
        assert!(img.len() == N, "C07: image length changed by an in-range write");
        let mut i = 0;
        while i < N {
            if k == area && i >= byte && i < byte + width {
                assert!(img[i] == span[i - byte], "C07: written span is not the little-endian encoding of the value");
            } else {
                assert!(img[i] == before[k][i], "C07: a byte outside the addressed span changed");
            }
            i += 1;
        }
        k += 1;
    }
}

// @verif prop=C07 kernel=K1 tiers=quick,thorough timeout=900 stubbing=yes
// @verif what=IoInterface::write/read of %X bit addresses: only bit n of byte b changes, every other bit and byte of all three images is unchanged, read returns the written value
// @verif fns=io::IoInterface::{write,read,resize,inputs_mut,outputs_mut,memory_mut}, io::ensure_len
// @verif bound=three images of 12 symbolic bytes; area symbolic; byte in 0..12, bit in 0..=7 (what IoAddress::parse guarantees); value symbolic
// @verif stub=std::hash::RandomState::new -> fixed keys (hierarchical map stays empty)
// @verif assume=bit <= 7 (what IoAddress::parse guarantees - `if bit > 7 { return Err(..) }` at io.rs:176, established by reading: a harness over parse on strings of <= 4 bytes runs out of memory)
#[kani::proof]
#[kani::unwind(14)]
#[kani::stub(std::hash::RandomState::new, fixed_random_state)]
fn c07_write_bit_locality() {
    for_each_area!(write_bit_case);
}
fn write_bit_case(area: IoArea) {
    let before: [[u8; N]; 3] = kani::any();
    let mut io = IoInterface::new();
    fill(&mut io, &before);
    let byte: u32 = kani::any();
    let bit: u8 = kani::any();
    kani::assume((byte as usize) < N && bit <= 7);
    let flag: bool = kani::any();
    let a = addr(area, IoSize::Bit, byte, bit);
    let r = io.write(&a, Value::Bool(flag));
    assert!(r.is_ok(), "C07: in-range bit write failed");
    let old = before[area_idx(area)][byte as usize];
    let expect = if flag { old | (1u8 << bit) } else { old & !(1u8 << bit) };
    check_images(&io, &before, area_idx(area), byte as usize, &[expect], 1);
    match io.read(&a) { Ok(Value::Bool(g)) => assert!(g == flag, "C07: read after write differs"), _ => assert!(false, "C07: bit read failed") }
    kani::cover!(flag && old != 0 && bit == 7);
    kani::cover!(!flag && old == 0xff && bit == 3);
    std::mem::forget(io);
}

macro_rules! write_locality {
    ($name:ident, $size:ident, $variant:ident, $ty:ty, $w:expr) => {
        #[kani::proof]
        #[kani::unwind(14)]
        #[kani::stub(std::hash::RandomState::new, fixed_random_state)]
        fn $name() {
            fn case(area: IoArea) {
            let before: [[u8; N]; 3] = kani::any();
            let mut io = IoInterface::new();
            fill(&mut io, &before);
            let byte: u32 = kani::any();
            kani::assume((byte as usize) + $w <= N);
            let v: $ty = kani::any();
            let a = addr(area, IoSize::$size, byte, kani::any());
            let r = io.write(&a, Value::$variant(v));
            assert!(r.is_ok(), "C07: in-range write failed");
            let le = v.to_le_bytes();
            check_images(&io, &before, area_idx(area), byte as usize, &le, $w);
            match io.read(&a) { Ok(Value::$variant(g)) => assert!(g == v, "C07: read after write differs"), _ => assert!(false, "C07: read failed or returned another type") }
            kani::cover!(byte as usize + $w == N && v != 0);
            kani::cover!(byte == 0);
            std::mem::forget(io);
            }
            for_each_area!(case);
        }
    };
}

// @verif prop=C07 kernel=K1 tiers=quick,thorough timeout=900 stubbing=yes
// @verif what=IoInterface::write/read of %B byte addresses: locality in all three images, read(write(v)) = v
// @verif fns=io::IoInterface::{write,read}
// @verif bound=three images of 12 symbolic bytes; area, byte offset (span inside the image) and value symbolic
// @verif stub=std::hash::RandomState::new -> fixed keys
write_locality!(c07_write_byte_locality, Byte, Byte, u8, 1);

// @verif prop=C07 kernel=K1 tiers=quick,thorough timeout=900 stubbing=yes
// @verif what=IoInterface::write/read of %W word addresses: little-endian span, locality, read(write(v)) = v
// @verif fns=io::IoInterface::{write,read}
// @verif bound=three images of 12 symbolic bytes; area, byte offset (span inside the image) and value symbolic
// @verif stub=std::hash::RandomState::new -> fixed keys
write_locality!(c07_write_word_locality, Word, Word, u16, 2);

// @verif prop=C07 kernel=K1 tiers=quick,thorough timeout=900 stubbing=yes
// @verif what=IoInterface::write/read of %D double-word addresses: little-endian span, locality, read(write(v)) = v
// @verif fns=io::IoInterface::{write,read}
// @verif bound=three images of 12 symbolic bytes; area, byte offset (span inside the image) and value symbolic
// @verif stub=std::hash::RandomState::new -> fixed keys
write_locality!(c07_write_dword_locality, DWord, DWord, u32, 4);

// @verif prop=C07 kernel=K1 tiers=quick,thorough timeout=900 stubbing=yes
// @verif what=IoInterface::write/read of %L long-word addresses: little-endian span, locality, read(write(v)) = v
// @verif fns=io::IoInterface::{write,read}
// @verif bound=three images of 12 symbolic bytes; area, byte offset (span inside the image) and value symbolic
// @verif stub=std::hash::RandomState::new -> fixed keys
write_locality!(c07_write_lword_locality, LWord, LWord, u64, 8);

// @verif prop=C07 kernel=K1 tiers=quick,thorough timeout=900 stubbing=yes
// @verif what=reads never change an image, decode little-endian, and bytes beyond the image read as 0; a read at any offset (also straddling or past the end) never panics
// @verif fns=io::IoInterface::read
// @verif bound=three images of 12 symbolic bytes; area and size symbolic; byte offset in 0..=20 (8 past the end)
// @verif stub=std::hash::RandomState::new -> fixed keys
#[kani::proof]
#[kani::unwind(14)]
#[kani::stub(std::hash::RandomState::new, fixed_random_state)]
fn c07_read_decodes_le_and_zero_extends() {
    for_each_area!(read_case);
}
fn read_case(area: IoArea) {
    let before: [[u8; N]; 3] = kani::any();
    let mut io = IoInterface::new();
    fill(&mut io, &before);
    let byte: u32 = kani::any();
    kani::assume(byte <= 20);
    let bit: u8 = kani::any();
    kani::assume(bit <= 7);
    let img = before[area_idx(area)];
    let at = |i: usize| -> u8 { if i < N { img[i] } else { 0 } };
    let b = byte as usize;
    let sel: u8 = kani::any();
    match sel % 5 {
        0 => match io.read(&addr(area, IoSize::Bit, byte, bit)) {
            Ok(Value::Bool(g)) => assert!(g == ((at(b) >> bit) & 1 == 1), "C07: bit read is not bit n of byte b"),
            _ => assert!(false, "C07: bit read failed"),
        },
        1 => match io.read(&addr(area, IoSize::Byte, byte, bit)) {
            Ok(Value::Byte(g)) => assert!(g == at(b), "C07: byte read differs"),
            _ => assert!(false, "C07: byte read failed"),
        },
        2 => match io.read(&addr(area, IoSize::Word, byte, bit)) {
            Ok(Value::Word(g)) => assert!(g == u16::from_le_bytes([at(b), at(b + 1)]), "C07: word read is not little-endian"),
            _ => assert!(false, "C07: word read failed"),
        },
        3 => match io.read(&addr(area, IoSize::DWord, byte, bit)) {
            Ok(Value::DWord(g)) => assert!(g == u32::from_le_bytes([at(b), at(b + 1), at(b + 2), at(b + 3)]), "C07: dword read is not little-endian"),
            _ => assert!(false, "C07: dword read failed"),
        },
        _ => match io.read(&addr(area, IoSize::LWord, byte, bit)) {
            Ok(Value::LWord(g)) => assert!(
                g == u64::from_le_bytes([at(b), at(b + 1), at(b + 2), at(b + 3), at(b + 4), at(b + 5), at(b + 6), at(b + 7)]),
                "C07: lword read is not little-endian"),
            _ => assert!(false, "C07: lword read failed"),
        },
    }
    check_images(&io, &before, 3, 0, &[], 0);
    kani::cover!(b == N - 1 && sel % 5 == 2);
    kani::cover!(b > N);
    std::mem::forget(io);
}

// @verif prop=C07 kernel=K1 tiers=quick,thorough timeout=900 stubbing=yes
// @verif what=a value whose type does not match the address size is rejected and changes nothing; a write past the end grows only the addressed image, only up to byte+width, zero-filled
// @verif fns=io::IoInterface::write, io::ensure_len
// @verif bound=images of 12 symbolic bytes; mismatching (size, value tag) pairs: X<-BYTE, B<-WORD, W<-BOOL, D<-LWORD, L<-DWORD; growth: %W and %B writes at byte offset 11..=14
// @verif stub=std::hash::RandomState::new -> fixed keys
#[kani::proof]
#[kani::unwind(18)]
#[kani::stub(std::hash::RandomState::new, fixed_random_state)]
fn c07_write_mismatch_and_growth() {
    for_each_area!(mismatch_growth_case);
}
fn mismatch_growth_case(area: IoArea) {
    let before: [[u8; N]; 3] = kani::any();
    let mut io = IoInterface::new();
    fill(&mut io, &before);
    let byte: u32 = kani::any();
    kani::assume((byte as usize) + 8 <= N);
    let sel: u8 = kani::any();
    let r = match sel % 5 {
        0 => io.write(&addr(area, IoSize::Bit, byte, 0), Value::Byte(kani::any())),
        1 => io.write(&addr(area, IoSize::Byte, byte, 0), Value::Word(kani::any())),
        2 => io.write(&addr(area, IoSize::Word, byte, 0), Value::Bool(kani::any())),
        3 => io.write(&addr(area, IoSize::DWord, byte, 0), Value::LWord(kani::any())),
        _ => io.write(&addr(area, IoSize::LWord, byte, 0), Value::DWord(kani::any())),
    };
    assert!(r.is_err(), "C07: a value of the wrong width was accepted");
    check_images(&io, &before, 3, 0, &[], 0);
    // growth
    let gb: u32 = kani::any();
    kani::assume(gb >= 11 && gb <= 14);
    let w: u16 = kani::any();
    let k = area_idx(area);
    assert!(io.write(&addr(area, IoSize::Word, gb, 0), Value::Word(w)).is_ok());
    let mut j = 0;
    while j < 3 {
        let img = image(&io, j);
        if j == k {
            let want = if (gb as usize) + 2 > N { gb as usize + 2 } else { N };
            assert!(img.len() == want, "C07: image grew beyond byte+width");
            let mut i = 0;
            while i < img.len() {
                let exp = if i == gb as usize { w.to_le_bytes()[0] } else if i == gb as usize + 1 { w.to_le_bytes()[1] }
                          else if i < N { before[j][i] } else { 0 };
                assert!(img[i] == exp, "C07: growth changed or mis-filled a byte");
                i += 1;
            }
        } else {
            assert!(img.len() == N, "C07: another image was resized");
        }
        j += 1;
    }
    kani::cover!(gb == 14);
    kani::cover!(gb == 11 && w == 0xabcd);
    std::mem::forget(io);
}

// =====================================================================================
// K4: partial access (%X / %B / %W / %D on bit-string VALUES) - same locality contract as direct addresses
// =====================================================================================
use trust_runtime::value::{read_partial_access, write_partial_access, PartialAccess, PartialAccessError};

macro_rules! partial_case {
    ($tv:ident, $tt:ty, $acc:ident, $pv:ident, $pt:ty, $pbits:expr, $count:expr) => {{
        let word: $tt = kani::any();
        let idx: u8 = kani::any();
        let part: $pt = kani::any();
        let r = write_partial_access(Value::$tv(word), PartialAccess::$acc(idx), Value::$pv(part));
        if (idx as u32) < $count {
            let shift: u32 = (idx as u32) * $pbits;
            let mask: $tt = ((((1u128 << $pbits) - 1) as $tt) << shift);
            let pbits: $tt = (part as u128 as $tt) << shift;
            match &r {
                Ok(Value::$tv(out)) => {
                    assert!((*out & !mask) == (word & !mask), "C07: partial write changed bits outside the addressed part");
                    assert!((*out & mask) == (pbits & mask), "C07: partial write stored the wrong bits");
                    let back = read_partial_access(&Value::$tv(*out), PartialAccess::$acc(idx));
                    assert!(matches!(&back, Ok(Value::$pv(b)) if *b == part), "C07: partial read after write differs");
                }
                _ => assert!(false, "C07: in-range partial write failed or changed the value's type"),
            }
        } else {
            assert!(matches!(&r, Err(PartialAccessError::IndexOutOfBounds { .. })), "C07: out-of-range partial index must be IndexOutOfBounds");
        }
        kani::cover!((idx as u32) + 1 == $count);
        kani::cover!((idx as u32) >= $count);
        std::mem::forget(r);
    }};
}

macro_rules! partial_bit_case {
    ($tv:ident, $tt:ty, $count:expr) => {{
        let word: $tt = kani::any();
        let idx: u8 = kani::any();
        let bit: bool = kani::any();
        let r = write_partial_access(Value::$tv(word), PartialAccess::Bit(idx), Value::Bool(bit));
        if (idx as u32) < $count {
            let mask: $tt = (1 as $tt) << (idx as u32);
            match &r {
                Ok(Value::$tv(out)) => {
                    assert!((*out & !mask) == (word & !mask), "C07: partial bit write changed another bit");
                    assert!(((*out & mask) != 0) == bit, "C07: partial bit write stored the wrong bit");
                    let back = read_partial_access(&Value::$tv(*out), PartialAccess::Bit(idx));
                    assert!(matches!(&back, Ok(Value::Bool(b)) if *b == bit), "C07: partial bit read after write differs");
                }
                _ => assert!(false, "C07: in-range partial bit write failed or changed the value's type"),
            }
        } else {
            assert!(matches!(&r, Err(PartialAccessError::IndexOutOfBounds { .. })), "C07: out-of-range bit index must be IndexOutOfBounds");
        }
        kani::cover!((idx as u32) + 1 == $count);
        kani::cover!((idx as u32) >= $count);
        std::mem::forget(r);
    }};
}

// @verif prop=C07 kernel=K4 tiers=quick,thorough timeout=1800 unwind=1 mem=12
// @verif what=partial access on bit-string values: writing bit n / byte n / word n / dword n of a BYTE/WORD/DWORD/LWORD changes exactly the addressed bits (little-endian numbering), read after write returns the written part, an out-of-range index is IndexOutOfBounds (never a shift overflow)
// @verif fns=value::partial_access::{read_partial_access,write_partial_access}
// @verif bound=every target value, every index 0..=255, every bit value; .%X on BYTE/WORD/DWORD/LWORD
#[kani::proof]
fn c07_partial_access_locality() {
    let k: u8 = kani::any();
    match k % 4 {
        0 => partial_bit_case!(Byte, u8, 8), 1 => partial_bit_case!(Word, u16, 16),
        2 => partial_bit_case!(DWord, u32, 32), _ => partial_bit_case!(LWord, u64, 64),
    }
}

// @verif prop=C07 kernel=K4 tiers=quick,thorough timeout=1800 unwind=1 mem=12
// @verif what=partial access on bit-string values, byte / word / dword parts: writing part n changes exactly the addressed bits (little-endian numbering), read after write returns the written part, an out-of-range index is IndexOutOfBounds
// @verif fns=value::partial_access::{read_partial_access,write_partial_access}
// @verif bound=every target value, every index 0..=255, every part value; 6 shapes: .%B on WORD/DWORD/LWORD, .%W on DWORD/LWORD, .%D on LWORD
#[kani::proof]
fn c07_partial_access_locality_parts() {
    let k: u8 = kani::any();
    match k % 6 {
        0 => partial_case!(Word, u16, Byte, Byte, u8, 8, 2), 1 => partial_case!(DWord, u32, Byte, Byte, u8, 8, 4),
        2 => partial_case!(LWord, u64, Byte, Byte, u8, 8, 8), 3 => partial_case!(DWord, u32, Word, Word, u16, 16, 2),
        4 => partial_case!(LWord, u64, Word, Word, u16, 16, 4), _ => partial_case!(LWord, u64, DWord, DWord, u32, 32, 2),
    }
}
