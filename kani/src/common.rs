//! Shared symbolic constructors, stubs and reference helpers.

use trust_runtime::value::Duration;

/// Arbitrary duration (full i64 nanosecond range).
#[cfg(kani)]
pub fn any_duration() -> Duration {
    Duration::from_nanos(kani::any())
}

/// Fixed SipHash keys for `std::hash::RandomState::new` (the real one reads thread-local state
/// seeded through a getrandom FFI call). Needs `unsafe`, which is why the harness crate is external:
/// every trust-platform library crate is `#![forbid(unsafe_code)]`. The properties that use this stub
/// do not depend on the hash seed.
pub fn fixed_random_state() -> std::hash::RandomState {
    unsafe { std::mem::transmute::<[u64; 2], std::hash::RandomState>([0x0123_4567_89ab_cdef, 0x0f1e_2d3c_4b5a_6978]) }
}


// ---- hash-free IndexMap lookups (DESIGN M3) ---------------------------------------------------------
// Probed: one `IndexMap::get_mut` + one `IndexMap::get` through SipHash and hashbrown's 16-lane SIMD model
// produce 38M variables / 168M clauses. The lookups are replaced by a semantically equivalent linear scan
// over the entries in insertion order (IndexMap's documented iteration order); the maps in the harnesses
// hold at most two entries. Everything else in indexmap (insert, iteration, entry order) stays real.
use core::hash::{BuildHasher, Hash};
use indexmap::{Equivalent, IndexMap};

pub fn indexmap_get_linear<'a, K, V, S: BuildHasher, Q: ?Sized + Hash + Equivalent<K>>(
    this: &'a IndexMap<K, V, S>,
    key: &Q,
) -> Option<&'a V> {
    for (k, v) in this.iter() {
        if key.equivalent(k) {
            return Some(v);
        }
    }
    None
}

pub fn indexmap_get_mut_linear<'a, K, V, S: BuildHasher, Q: ?Sized + Hash + Equivalent<K>>(
    this: &'a mut IndexMap<K, V, S>,
    key: &Q,
) -> Option<&'a mut V> {
    for (k, v) in this.iter_mut() {
        if key.equivalent(k) {
            return Some(v);
        }
    }
    None
}


/// Stub for `alloc::fmt::format` (error paths build their messages with `format!`; the formatting machinery
/// is irrelevant to every property here and dominates symbolic execution otherwise).
pub fn empty_format(_args: core::fmt::Arguments<'_>) -> String {
    String::new()
}
