//! Shared symbolic constructors, stubs and reference helpers.

use trust_runtime::value::Duration;

/// Arbitrary duration (full i64 nanosecond range).
#[cfg(kani)]
pub fn any_duration() -> Duration {
    Duration::from_nanos(kani::any())
}

/// Fixed SipHash keys for `std::hash::RandomState::new` (the real one reads thread-local state
/// seeded through a getrandom FFI call). Needs `unsafe`, which is why the harness crate is external:
/// every trust-platform library crate is `#![forbid(unsafe_code)]`. The properties that use this stub
/// do not depend on the hash seed.
pub fn fixed_random_state() -> std::hash::RandomState {
    unsafe { std::mem::transmute::<[u64; 2], std::hash::RandomState>([0x0123_4567_89ab_cdef, 0x0f1e_2d3c_4b5a_6978]) }
}
