//! Shared symbolic constructors, stubs and reference helpers.

use trust_runtime::value::Duration;

/// Arbitrary duration (full i64 nanosecond range).
#[cfg(kani)]
pub fn any_duration() -> Duration {
    Duration::from_nanos(kani::any())
}
