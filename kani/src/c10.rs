//! C10 — retain file: lossless codec (K1), total decoder with bounded allocation (K2).
//! K3 (crash atomicity of the save routine) is decided by /verif/smt/c10_crash.py (z3/cvc5).
use trust_runtime::error::RuntimeError;
use trust_runtime::retain::verif_export::{decode_snapshot_bytes, decode_value_bytes, encode_snapshot_vec, encode_value_vec};
use trust_runtime::value::{
    ArrayValue, DateTimeValue, DateValue, Duration, EnumValue, LDateTimeValue, LDateValue, LTimeOfDayValue,
    StructValue, TimeOfDayValue, Value,
};

/// encode -> decode one value; hands the decoded value to `$check` by reference.
macro_rules! roundtrip {
    ($val:expr, |$back:ident| $check:expr) => {{
        let val: Value = $val;
        match encode_value_vec(&val) {
            Ok(bytes) => {
                match decode_value_bytes(&bytes) {
                    Ok(pair) => {
                        let $back = &pair.0;
                        assert!($check, "C10: decode(encode(v)) differs from v");
                        assert!(pair.1 == bytes.len(), "C10: decoder did not consume exactly the encoded length");
                        std::mem::forget(pair);
                    }
                    Err(e) => { std::mem::forget(e); assert!(false, "C10: encoded value does not decode"); }
                }
                std::mem::forget(bytes);
            }
            Err(e) => { std::mem::forget(e); assert!(false, "C10: retainable value does not encode"); }
        }
        std::mem::forget(val);
    }};
}

// @verif prop=C10 kernel=K1 tiers=quick,thorough timeout=900
// @verif what=retain codec round trip: decode(encode(v)) is bit-identical and consumes exactly the encoded bytes (group 1/3: BOOL SINT INT)
// @verif fns=retain::{encode_value,decode_value,RetainReader::*}
// @verif bound=every payload value of the listed types
#[kani::proof]
#[kani::unwind(10)]
fn c10_roundtrip_integers_1() {
    let k: u8 = kani::any();

    let k: u8 = kani::any();
    match k % 3 {
        0 => { let x: bool = kani::any(); roundtrip!(Value::Bool(x), |b| matches!(b, Value::Bool(y) if *y == x)) }
        1 => { let x: i8 = kani::any(); roundtrip!(Value::SInt(x), |b| matches!(b, Value::SInt(y) if *y == x)) }
        _ => { let x: i16 = kani::any(); roundtrip!(Value::Int(x), |b| matches!(b, Value::Int(y) if *y == x)) }
    }
    kani::cover!(k % 3 == 0);
    kani::cover!(k % 3 == 2);
}

// @verif prop=C10 kernel=K1 tiers=quick,thorough timeout=900
// @verif what=retain codec round trip: decode(encode(v)) is bit-identical and consumes exactly the encoded bytes (group 2/3: DINT LINT USINT)
// @verif fns=retain::{encode_value,decode_value,RetainReader::*}
// @verif bound=every payload value of the listed types
#[kani::proof]
#[kani::unwind(10)]
fn c10_roundtrip_integers_2() {
    let k: u8 = kani::any();

    let k: u8 = kani::any();
    match k % 3 {
        0 => { let x: i32 = kani::any(); roundtrip!(Value::DInt(x), |b| matches!(b, Value::DInt(y) if *y == x)) }
        1 => { let x: i64 = kani::any(); roundtrip!(Value::LInt(x), |b| matches!(b, Value::LInt(y) if *y == x)) }
        _ => { let x: u8 = kani::any(); roundtrip!(Value::USInt(x), |b| matches!(b, Value::USInt(y) if *y == x)) }
    }
    kani::cover!(k % 3 == 0);
    kani::cover!(k % 3 == 2);
}

// @verif prop=C10 kernel=K1 tiers=quick,thorough timeout=900
// @verif what=retain codec round trip: decode(encode(v)) is bit-identical and consumes exactly the encoded bytes (group 3/3: UINT UDINT ULINT)
// @verif fns=retain::{encode_value,decode_value,RetainReader::*}
// @verif bound=every payload value of the listed types
#[kani::proof]
#[kani::unwind(10)]
fn c10_roundtrip_integers_3() {
    let k: u8 = kani::any();

    let k: u8 = kani::any();
    match k % 3 {
        0 => { let x: u16 = kani::any(); roundtrip!(Value::UInt(x), |b| matches!(b, Value::UInt(y) if *y == x)) }
        1 => { let x: u32 = kani::any(); roundtrip!(Value::UDInt(x), |b| matches!(b, Value::UDInt(y) if *y == x)) }
        _ => { let x: u64 = kani::any(); roundtrip!(Value::ULInt(x), |b| matches!(b, Value::ULInt(y) if *y == x)) }
    }
    kani::cover!(k % 3 == 0);
    kani::cover!(k % 3 == 2);
}


// @verif prop=C10 kernel=K1 tiers=quick,thorough timeout=900
// @verif what=retain codec round trip (bit patterns incl. NaN) (group 1/3: REAL LREAL BYTE)
// @verif fns=retain::{encode_value,decode_value,RetainReader::*}
// @verif bound=every payload bit pattern of the listed types
#[kani::proof]
#[kani::unwind(10)]
fn c10_roundtrip_bits_floats_chars_1() {
    let k: u8 = kani::any();

    match k % 3 {
        0 => { let x: u32 = kani::any(); roundtrip!(Value::Real(f32::from_bits(x)), |b| matches!(b, Value::Real(y) if y.to_bits() == x)) }
        1 => { let x: u64 = kani::any(); roundtrip!(Value::LReal(f64::from_bits(x)), |b| matches!(b, Value::LReal(y) if y.to_bits() == x)) }
        _ => { let x: u8 = kani::any(); roundtrip!(Value::Byte(x), |b| matches!(b, Value::Byte(y) if *y == x)) }
    }
    kani::cover!(k % 3 == 0);
    kani::cover!(k % 3 == 2);
}

// @verif prop=C10 kernel=K1 tiers=quick,thorough timeout=900
// @verif what=retain codec round trip (bit patterns incl. NaN) (group 2/3: WORD DWORD LWORD)
// @verif fns=retain::{encode_value,decode_value,RetainReader::*}
// @verif bound=every payload bit pattern of the listed types
#[kani::proof]
#[kani::unwind(10)]
fn c10_roundtrip_bits_floats_chars_2() {
    let k: u8 = kani::any();

    match k % 3 {
        0 => { let x: u16 = kani::any(); roundtrip!(Value::Word(x), |b| matches!(b, Value::Word(y) if *y == x)) }
        1 => { let x: u32 = kani::any(); roundtrip!(Value::DWord(x), |b| matches!(b, Value::DWord(y) if *y == x)) }
        _ => { let x: u64 = kani::any(); roundtrip!(Value::LWord(x), |b| matches!(b, Value::LWord(y) if *y == x)) }
    }
    kani::cover!(k % 3 == 0);
    kani::cover!(k % 3 == 2);
}

// @verif prop=C10 kernel=K1 tiers=quick,thorough timeout=900
// @verif what=retain codec round trip (bit patterns incl. NaN) (group 3/3: CHAR WCHAR NULL)
// @verif fns=retain::{encode_value,decode_value,RetainReader::*}
// @verif bound=every payload bit pattern of the listed types
#[kani::proof]
#[kani::unwind(10)]
fn c10_roundtrip_bits_floats_chars_3() {
    let k: u8 = kani::any();

    match k % 3 {
        0 => { let x: u8 = kani::any(); roundtrip!(Value::Char(x), |b| matches!(b, Value::Char(y) if *y == x)) }
        1 => { let x: u16 = kani::any(); roundtrip!(Value::WChar(x), |b| matches!(b, Value::WChar(y) if *y == x)) }
        _ => { roundtrip!(Value::Null, |b| matches!(b, Value::Null)) }
    }
    kani::cover!(k % 3 == 0);
    kani::cover!(k % 3 == 2);
}


// @verif prop=C10 kernel=K1 tiers=quick,thorough timeout=900
// @verif what=retain codec round trip at nanosecond/tick resolution (group 1/3: TIME LTIME DATE)
// @verif fns=retain::{encode_value,decode_value,RetainReader::*}
// @verif bound=every i64 payload of the listed types
#[kani::proof]
#[kani::unwind(10)]
fn c10_roundtrip_time_date_1() {
    let k: u8 = kani::any();

    let k: u8 = kani::any();
    let x: i64 = kani::any();
    match k % 3 {
        0 => roundtrip!(Value::Time(Duration::from_nanos(x)), |b| matches!(b, Value::Time(y) if y.as_nanos() == x)),
        1 => roundtrip!(Value::LTime(Duration::from_nanos(x)), |b| matches!(b, Value::LTime(y) if y.as_nanos() == x)),
        _ => roundtrip!(Value::Date(DateValue::new(x)), |b| matches!(b, Value::Date(y) if y.ticks() == x)),
    }
    kani::cover!(k % 3 == 0);
    kani::cover!(k % 3 == 2);
}

// @verif prop=C10 kernel=K1 tiers=quick,thorough timeout=900
// @verif what=retain codec round trip at nanosecond/tick resolution (group 2/3: LDATE TOD LTOD)
// @verif fns=retain::{encode_value,decode_value,RetainReader::*}
// @verif bound=every i64 payload of the listed types
#[kani::proof]
#[kani::unwind(10)]
fn c10_roundtrip_time_date_2() {
    let k: u8 = kani::any();

    let k: u8 = kani::any();
    let x: i64 = kani::any();
    match k % 3 {
        0 => roundtrip!(Value::LDate(LDateValue::new(x)), |b| matches!(b, Value::LDate(y) if y.nanos() == x)),
        1 => roundtrip!(Value::Tod(TimeOfDayValue::new(x)), |b| matches!(b, Value::Tod(y) if y.ticks() == x)),
        _ => roundtrip!(Value::LTod(LTimeOfDayValue::new(x)), |b| matches!(b, Value::LTod(y) if y.nanos() == x)),
    }
    kani::cover!(k % 3 == 0);
    kani::cover!(k % 3 == 2);
}

// @verif prop=C10 kernel=K1 tiers=quick,thorough timeout=900
// @verif what=retain codec round trip at nanosecond/tick resolution (group 3/3: DT LDT)
// @verif fns=retain::{encode_value,decode_value,RetainReader::*}
// @verif bound=every i64 payload of the listed types
#[kani::proof]
#[kani::unwind(10)]
fn c10_roundtrip_time_date_3() {
    let k: u8 = kani::any();

    let k: u8 = kani::any();
    let x: i64 = kani::any();
    match k % 2 {
        0 => roundtrip!(Value::Dt(DateTimeValue::new(x)), |b| matches!(b, Value::Dt(y) if y.ticks() == x)),
        _ => roundtrip!(Value::Ldt(LDateTimeValue::new(x)), |b| matches!(b, Value::Ldt(y) if y.nanos() == x)),
    }
    kani::cover!(k % 2 == 0);
    kani::cover!(k % 2 == 1);
}


// ---------------------------------------------------------------------------------------
// K2: total decoder. Arbitrary bytes -> Ok/Err, never a panic, and every Vec::with_capacity
// request stays proportional to the input (allocation monitor stub).
// ---------------------------------------------------------------------------------------

/// Input length of the running K2 harness, read by the allocation monitor.
static mut INPUT_LEN: usize = 0;

/// Stub for `Vec::<T>::with_capacity`: asserts the request is O(|input|), then returns an empty Vec
/// (pushes grow it as usual, so decoding semantics are unchanged).
pub fn monitored_with_capacity<T>(capacity: usize) -> Vec<T> {
    let bytes = (capacity as u128) * (core::mem::size_of::<T>() as u128);
    let budget = unsafe { INPUT_LEN as u128 } * 128 + 256;
    assert!(bytes <= budget, "C10: decoder requests an allocation that is not proportional to the input size");
    // keep the capacity guarantee callers may rely on (std writes through raw pointers after with_capacity);
    // reserve_exact is not stubbed. A request over budget has already failed the assertion above.
    let mut v = Vec::new();
    v.reserve_exact(if bytes <= budget { capacity } else { 0 });
    v
}

/// One decode of an arbitrary buffer of CONCRETE length `N` whose first byte (the value tag) is the
/// constant `T`.
/// DESIGN (probed twice): (1) with a symbolic tag byte the 31-arm match merges 31 differently tagged
/// `Value`s and CBMC exhausts 16 GB; (2) with a symbolic slice length the very first `read_u8()?` merges
/// Ok(tag)/Err(truncated) and CBMC no longer folds the tag constant, with the same result. Tag byte and
/// length are therefore concrete per call site; the quantification over (tag, length) is a symbolic
/// selector over call sites, the remaining N-1 bytes are symbolic.
fn decode_one<const N: usize, const T: u8>() {
    let mut buf: [u8; N] = kani::any();
    buf[0] = T;
    unsafe { INPUT_LEN = N; }
    let r = decode_value_bytes(&buf);
    match &r {
        Ok((_, used)) => assert!(*used <= N && *used >= 1, "C10: decoder consumed more than the input"),
        Err(_) => {}
    }
    if !(T >= 1 && T <= 31) { assert!(r.is_err(), "C10: unknown value tag accepted"); }
    std::mem::forget(r);
}

/// lengths 1, 2, 3, 5, 9, 10 for one tag: tag only; exact / truncated / trailing byte for the 1-, 2-, 4- and
/// 8-byte payloads (each decode costs ~25 s of symbolic execution because every step moves a 96-byte `Value`
/// union; probed: all ten lengths = 480 s per tag).
fn decode_tag_all_lengths<const T: u8>(sel: u8) {
    match sel {
        1 => decode_one::<1, T>(), 2 => decode_one::<2, T>(), 3 => decode_one::<3, T>(),
        5 => decode_one::<5, T>(), 9 => decode_one::<9, T>(), _ => decode_one::<10, T>(),
    }
}

macro_rules! decode_tags {
    ($name:ident, [$($t:expr),+]) => {
        #[kani::proof]
        #[kani::stub(std::vec::Vec::with_capacity, monitored_with_capacity)]
        fn $name() {
            let tsel: u8 = kani::any();
            let lsel: u8 = kani::any();
            let mut i: u8 = 0;
            $( if tsel == i { decode_tag_all_lengths::<$t>(lsel); } i += 1; )+
            kani::cover!(tsel == 0 && lsel == 1);
            kani::cover!(tsel == 0 && lsel == 10);
        }
    };
}


// @verif prop=C10 kernel=K2 tiers=thorough timeout=1800 unwind=1 stubbing=yes mem=12
// @verif what=decode_value total on arbitrary bytes with tag byte 1 (bool): Ok/Err, no panic, no out-of-bounds read, consumed <= input, unknown tags rejected
// @verif fns=retain::{decode_value,RetainReader::*}
// @verif bound=all byte strings of length 1, 2, 3, 5, 9 or 10 whose first byte is 1 (tag byte and length concrete per call site, remaining bytes symbolic)
// @verif stub=alloc::vec::Vec::<T>::with_capacity -> allocation monitor (asserts cap*size_of::<T>() <= 128*|input|+256, then reserves the requested capacity)
decode_tags!(c10_decode_total_bool, [1]);

// @verif prop=C10 kernel=K2 tiers=thorough timeout=1800 unwind=1 stubbing=yes mem=12
// @verif what=decode_value total on arbitrary bytes with tag byte 2 (sint): Ok/Err, no panic, no out-of-bounds read, consumed <= input, unknown tags rejected
// @verif fns=retain::{decode_value,RetainReader::*}
// @verif bound=all byte strings of length 1, 2, 3, 5, 9 or 10 whose first byte is 2 (tag byte and length concrete per call site, remaining bytes symbolic)
// @verif stub=alloc::vec::Vec::<T>::with_capacity -> allocation monitor (asserts cap*size_of::<T>() <= 128*|input|+256, then reserves the requested capacity)
decode_tags!(c10_decode_total_sint, [2]);

// @verif prop=C10 kernel=K2 tiers=thorough timeout=1800 unwind=1 stubbing=yes mem=12
// @verif what=decode_value total on arbitrary bytes with tag byte 3 (int): Ok/Err, no panic, no out-of-bounds read, consumed <= input, unknown tags rejected
// @verif fns=retain::{decode_value,RetainReader::*}
// @verif bound=all byte strings of length 1, 2, 3, 5, 9 or 10 whose first byte is 3 (tag byte and length concrete per call site, remaining bytes symbolic)
// @verif stub=alloc::vec::Vec::<T>::with_capacity -> allocation monitor (asserts cap*size_of::<T>() <= 128*|input|+256, then reserves the requested capacity)
decode_tags!(c10_decode_total_int, [3]);

// @verif prop=C10 kernel=K2 tiers=thorough timeout=1800 unwind=1 stubbing=yes mem=12
// @verif what=decode_value total on arbitrary bytes with tag byte 4 (dint): Ok/Err, no panic, no out-of-bounds read, consumed <= input, unknown tags rejected
// @verif fns=retain::{decode_value,RetainReader::*}
// @verif bound=all byte strings of length 1, 2, 3, 5, 9 or 10 whose first byte is 4 (tag byte and length concrete per call site, remaining bytes symbolic)
// @verif stub=alloc::vec::Vec::<T>::with_capacity -> allocation monitor (asserts cap*size_of::<T>() <= 128*|input|+256, then reserves the requested capacity)
decode_tags!(c10_decode_total_dint, [4]);

// @verif prop=C10 kernel=K2 tiers=quick,thorough timeout=1800 unwind=1 stubbing=yes mem=12
// @verif what=decode_value total on arbitrary bytes with tag byte 5 (lint): Ok/Err, no panic, no out-of-bounds read, consumed <= input, unknown tags rejected
// @verif fns=retain::{decode_value,RetainReader::*}
// @verif bound=all byte strings of length 1, 2, 3, 5, 9 or 10 whose first byte is 5 (tag byte and length concrete per call site, remaining bytes symbolic)
// @verif stub=alloc::vec::Vec::<T>::with_capacity -> allocation monitor (asserts cap*size_of::<T>() <= 128*|input|+256, then reserves the requested capacity)
decode_tags!(c10_decode_total_lint, [5]);

// @verif prop=C10 kernel=K2 tiers=thorough timeout=1800 unwind=1 stubbing=yes mem=12
// @verif what=decode_value total on arbitrary bytes with tag byte 6 (usint): Ok/Err, no panic, no out-of-bounds read, consumed <= input, unknown tags rejected
// @verif fns=retain::{decode_value,RetainReader::*}
// @verif bound=all byte strings of length 1, 2, 3, 5, 9 or 10 whose first byte is 6 (tag byte and length concrete per call site, remaining bytes symbolic)
// @verif stub=alloc::vec::Vec::<T>::with_capacity -> allocation monitor (asserts cap*size_of::<T>() <= 128*|input|+256, then reserves the requested capacity)
decode_tags!(c10_decode_total_usint, [6]);

// @verif prop=C10 kernel=K2 tiers=thorough timeout=1800 unwind=1 stubbing=yes mem=12
// @verif what=decode_value total on arbitrary bytes with tag byte 7 (uint): Ok/Err, no panic, no out-of-bounds read, consumed <= input, unknown tags rejected
// @verif fns=retain::{decode_value,RetainReader::*}
// @verif bound=all byte strings of length 1, 2, 3, 5, 9 or 10 whose first byte is 7 (tag byte and length concrete per call site, remaining bytes symbolic)
// @verif stub=alloc::vec::Vec::<T>::with_capacity -> allocation monitor (asserts cap*size_of::<T>() <= 128*|input|+256, then reserves the requested capacity)
decode_tags!(c10_decode_total_uint, [7]);

// @verif prop=C10 kernel=K2 tiers=thorough timeout=1800 unwind=1 stubbing=yes mem=12
// @verif what=decode_value total on arbitrary bytes with tag byte 8 (udint): Ok/Err, no panic, no out-of-bounds read, consumed <= input, unknown tags rejected
// @verif fns=retain::{decode_value,RetainReader::*}
// @verif bound=all byte strings of length 1, 2, 3, 5, 9 or 10 whose first byte is 8 (tag byte and length concrete per call site, remaining bytes symbolic)
// @verif stub=alloc::vec::Vec::<T>::with_capacity -> allocation monitor (asserts cap*size_of::<T>() <= 128*|input|+256, then reserves the requested capacity)
decode_tags!(c10_decode_total_udint, [8]);

// @verif prop=C10 kernel=K2 tiers=thorough timeout=1800 unwind=1 stubbing=yes mem=12
// @verif what=decode_value total on arbitrary bytes with tag byte 9 (ulint): Ok/Err, no panic, no out-of-bounds read, consumed <= input, unknown tags rejected
// @verif fns=retain::{decode_value,RetainReader::*}
// @verif bound=all byte strings of length 1, 2, 3, 5, 9 or 10 whose first byte is 9 (tag byte and length concrete per call site, remaining bytes symbolic)
// @verif stub=alloc::vec::Vec::<T>::with_capacity -> allocation monitor (asserts cap*size_of::<T>() <= 128*|input|+256, then reserves the requested capacity)
decode_tags!(c10_decode_total_ulint, [9]);

// @verif prop=C10 kernel=K2 tiers=quick,thorough timeout=1800 unwind=1 stubbing=yes mem=12
// @verif what=decode_value total on arbitrary bytes with tag byte 10 (real): Ok/Err, no panic, no out-of-bounds read, consumed <= input, unknown tags rejected
// @verif fns=retain::{decode_value,RetainReader::*}
// @verif bound=all byte strings of length 1, 2, 3, 5, 9 or 10 whose first byte is 10 (tag byte and length concrete per call site, remaining bytes symbolic)
// @verif stub=alloc::vec::Vec::<T>::with_capacity -> allocation monitor (asserts cap*size_of::<T>() <= 128*|input|+256, then reserves the requested capacity)
decode_tags!(c10_decode_total_real, [10]);

// @verif prop=C10 kernel=K2 tiers=thorough timeout=1800 unwind=1 stubbing=yes mem=12
// @verif what=decode_value total on arbitrary bytes with tag byte 11 (lreal): Ok/Err, no panic, no out-of-bounds read, consumed <= input, unknown tags rejected
// @verif fns=retain::{decode_value,RetainReader::*}
// @verif bound=all byte strings of length 1, 2, 3, 5, 9 or 10 whose first byte is 11 (tag byte and length concrete per call site, remaining bytes symbolic)
// @verif stub=alloc::vec::Vec::<T>::with_capacity -> allocation monitor (asserts cap*size_of::<T>() <= 128*|input|+256, then reserves the requested capacity)
decode_tags!(c10_decode_total_lreal, [11]);

// @verif prop=C10 kernel=K2 tiers=thorough timeout=1800 unwind=1 stubbing=yes mem=12
// @verif what=decode_value total on arbitrary bytes with tag byte 12 (byte): Ok/Err, no panic, no out-of-bounds read, consumed <= input, unknown tags rejected
// @verif fns=retain::{decode_value,RetainReader::*}
// @verif bound=all byte strings of length 1, 2, 3, 5, 9 or 10 whose first byte is 12 (tag byte and length concrete per call site, remaining bytes symbolic)
// @verif stub=alloc::vec::Vec::<T>::with_capacity -> allocation monitor (asserts cap*size_of::<T>() <= 128*|input|+256, then reserves the requested capacity)
decode_tags!(c10_decode_total_byte, [12]);

// @verif prop=C10 kernel=K2 tiers=thorough timeout=1800 unwind=1 stubbing=yes mem=12
// @verif what=decode_value total on arbitrary bytes with tag byte 13 (word): Ok/Err, no panic, no out-of-bounds read, consumed <= input, unknown tags rejected
// @verif fns=retain::{decode_value,RetainReader::*}
// @verif bound=all byte strings of length 1, 2, 3, 5, 9 or 10 whose first byte is 13 (tag byte and length concrete per call site, remaining bytes symbolic)
// @verif stub=alloc::vec::Vec::<T>::with_capacity -> allocation monitor (asserts cap*size_of::<T>() <= 128*|input|+256, then reserves the requested capacity)
decode_tags!(c10_decode_total_word, [13]);

// @verif prop=C10 kernel=K2 tiers=thorough timeout=1800 unwind=1 stubbing=yes mem=12
// @verif what=decode_value total on arbitrary bytes with tag byte 14 (dword): Ok/Err, no panic, no out-of-bounds read, consumed <= input, unknown tags rejected
// @verif fns=retain::{decode_value,RetainReader::*}
// @verif bound=all byte strings of length 1, 2, 3, 5, 9 or 10 whose first byte is 14 (tag byte and length concrete per call site, remaining bytes symbolic)
// @verif stub=alloc::vec::Vec::<T>::with_capacity -> allocation monitor (asserts cap*size_of::<T>() <= 128*|input|+256, then reserves the requested capacity)
decode_tags!(c10_decode_total_dword, [14]);

// @verif prop=C10 kernel=K2 tiers=thorough timeout=1800 unwind=1 stubbing=yes mem=12
// @verif what=decode_value total on arbitrary bytes with tag byte 15 (lword): Ok/Err, no panic, no out-of-bounds read, consumed <= input, unknown tags rejected
// @verif fns=retain::{decode_value,RetainReader::*}
// @verif bound=all byte strings of length 1, 2, 3, 5, 9 or 10 whose first byte is 15 (tag byte and length concrete per call site, remaining bytes symbolic)
// @verif stub=alloc::vec::Vec::<T>::with_capacity -> allocation monitor (asserts cap*size_of::<T>() <= 128*|input|+256, then reserves the requested capacity)
decode_tags!(c10_decode_total_lword, [15]);

// @verif prop=C10 kernel=K2 tiers=quick,thorough timeout=1800 unwind=1 stubbing=yes mem=12
// @verif what=decode_value total on arbitrary bytes with tag byte 16 (time): Ok/Err, no panic, no out-of-bounds read, consumed <= input, unknown tags rejected
// @verif fns=retain::{decode_value,RetainReader::*}
// @verif bound=all byte strings of length 1, 2, 3, 5, 9 or 10 whose first byte is 16 (tag byte and length concrete per call site, remaining bytes symbolic)
// @verif stub=alloc::vec::Vec::<T>::with_capacity -> allocation monitor (asserts cap*size_of::<T>() <= 128*|input|+256, then reserves the requested capacity)
decode_tags!(c10_decode_total_time, [16]);

// @verif prop=C10 kernel=K2 tiers=thorough timeout=1800 unwind=1 stubbing=yes mem=12
// @verif what=decode_value total on arbitrary bytes with tag byte 17 (ltime): Ok/Err, no panic, no out-of-bounds read, consumed <= input, unknown tags rejected
// @verif fns=retain::{decode_value,RetainReader::*}
// @verif bound=all byte strings of length 1, 2, 3, 5, 9 or 10 whose first byte is 17 (tag byte and length concrete per call site, remaining bytes symbolic)
// @verif stub=alloc::vec::Vec::<T>::with_capacity -> allocation monitor (asserts cap*size_of::<T>() <= 128*|input|+256, then reserves the requested capacity)
decode_tags!(c10_decode_total_ltime, [17]);

// @verif prop=C10 kernel=K2 tiers=thorough timeout=1800 unwind=1 stubbing=yes mem=12
// @verif what=decode_value total on arbitrary bytes with tag byte 18 (date): Ok/Err, no panic, no out-of-bounds read, consumed <= input, unknown tags rejected
// @verif fns=retain::{decode_value,RetainReader::*}
// @verif bound=all byte strings of length 1, 2, 3, 5, 9 or 10 whose first byte is 18 (tag byte and length concrete per call site, remaining bytes symbolic)
// @verif stub=alloc::vec::Vec::<T>::with_capacity -> allocation monitor (asserts cap*size_of::<T>() <= 128*|input|+256, then reserves the requested capacity)
decode_tags!(c10_decode_total_date, [18]);

// @verif prop=C10 kernel=K2 tiers=thorough timeout=1800 unwind=1 stubbing=yes mem=12
// @verif what=decode_value total on arbitrary bytes with tag byte 19 (ldate): Ok/Err, no panic, no out-of-bounds read, consumed <= input, unknown tags rejected
// @verif fns=retain::{decode_value,RetainReader::*}
// @verif bound=all byte strings of length 1, 2, 3, 5, 9 or 10 whose first byte is 19 (tag byte and length concrete per call site, remaining bytes symbolic)
// @verif stub=alloc::vec::Vec::<T>::with_capacity -> allocation monitor (asserts cap*size_of::<T>() <= 128*|input|+256, then reserves the requested capacity)
decode_tags!(c10_decode_total_ldate, [19]);

// @verif prop=C10 kernel=K2 tiers=thorough timeout=1800 unwind=1 stubbing=yes mem=12
// @verif what=decode_value total on arbitrary bytes with tag byte 20 (tod): Ok/Err, no panic, no out-of-bounds read, consumed <= input, unknown tags rejected
// @verif fns=retain::{decode_value,RetainReader::*}
// @verif bound=all byte strings of length 1, 2, 3, 5, 9 or 10 whose first byte is 20 (tag byte and length concrete per call site, remaining bytes symbolic)
// @verif stub=alloc::vec::Vec::<T>::with_capacity -> allocation monitor (asserts cap*size_of::<T>() <= 128*|input|+256, then reserves the requested capacity)
decode_tags!(c10_decode_total_tod, [20]);

// @verif prop=C10 kernel=K2 tiers=thorough timeout=1800 unwind=1 stubbing=yes mem=12
// @verif what=decode_value total on arbitrary bytes with tag byte 21 (ltod): Ok/Err, no panic, no out-of-bounds read, consumed <= input, unknown tags rejected
// @verif fns=retain::{decode_value,RetainReader::*}
// @verif bound=all byte strings of length 1, 2, 3, 5, 9 or 10 whose first byte is 21 (tag byte and length concrete per call site, remaining bytes symbolic)
// @verif stub=alloc::vec::Vec::<T>::with_capacity -> allocation monitor (asserts cap*size_of::<T>() <= 128*|input|+256, then reserves the requested capacity)
decode_tags!(c10_decode_total_ltod, [21]);

// @verif prop=C10 kernel=K2 tiers=thorough timeout=1800 unwind=1 stubbing=yes mem=12
// @verif what=decode_value total on arbitrary bytes with tag byte 22 (dt): Ok/Err, no panic, no out-of-bounds read, consumed <= input, unknown tags rejected
// @verif fns=retain::{decode_value,RetainReader::*}
// @verif bound=all byte strings of length 1, 2, 3, 5, 9 or 10 whose first byte is 22 (tag byte and length concrete per call site, remaining bytes symbolic)
// @verif stub=alloc::vec::Vec::<T>::with_capacity -> allocation monitor (asserts cap*size_of::<T>() <= 128*|input|+256, then reserves the requested capacity)
decode_tags!(c10_decode_total_dt, [22]);

// @verif prop=C10 kernel=K2 tiers=thorough timeout=1800 unwind=1 stubbing=yes mem=12
// @verif what=decode_value total on arbitrary bytes with tag byte 23 (ldt): Ok/Err, no panic, no out-of-bounds read, consumed <= input, unknown tags rejected
// @verif fns=retain::{decode_value,RetainReader::*}
// @verif bound=all byte strings of length 1, 2, 3, 5, 9 or 10 whose first byte is 23 (tag byte and length concrete per call site, remaining bytes symbolic)
// @verif stub=alloc::vec::Vec::<T>::with_capacity -> allocation monitor (asserts cap*size_of::<T>() <= 128*|input|+256, then reserves the requested capacity)
decode_tags!(c10_decode_total_ldt, [23]);

// @verif prop=C10 kernel=K2 tiers=thorough timeout=1800 unwind=1 stubbing=yes mem=12
// @verif what=decode_value total on arbitrary bytes with tag byte 26 (char): Ok/Err, no panic, no out-of-bounds read, consumed <= input, unknown tags rejected
// @verif fns=retain::{decode_value,RetainReader::*}
// @verif bound=all byte strings of length 1, 2, 3, 5, 9 or 10 whose first byte is 26 (tag byte and length concrete per call site, remaining bytes symbolic)
// @verif stub=alloc::vec::Vec::<T>::with_capacity -> allocation monitor (asserts cap*size_of::<T>() <= 128*|input|+256, then reserves the requested capacity)
decode_tags!(c10_decode_total_char, [26]);

// @verif prop=C10 kernel=K2 tiers=thorough timeout=1800 unwind=1 stubbing=yes mem=12
// @verif what=decode_value total on arbitrary bytes with tag byte 27 (wchar): Ok/Err, no panic, no out-of-bounds read, consumed <= input, unknown tags rejected
// @verif fns=retain::{decode_value,RetainReader::*}
// @verif bound=all byte strings of length 1, 2, 3, 5, 9 or 10 whose first byte is 27 (tag byte and length concrete per call site, remaining bytes symbolic)
// @verif stub=alloc::vec::Vec::<T>::with_capacity -> allocation monitor (asserts cap*size_of::<T>() <= 128*|input|+256, then reserves the requested capacity)
decode_tags!(c10_decode_total_wchar, [27]);

// @verif prop=C10 kernel=K2 tiers=quick,thorough timeout=1800 unwind=1 stubbing=yes mem=12
// @verif what=decode_value total on arbitrary bytes with tag byte 31 (null): Ok/Err, no panic, no out-of-bounds read, consumed <= input, unknown tags rejected
// @verif fns=retain::{decode_value,RetainReader::*}
// @verif bound=all byte strings of length 1, 2, 3, 5, 9 or 10 whose first byte is 31 (tag byte and length concrete per call site, remaining bytes symbolic)
// @verif stub=alloc::vec::Vec::<T>::with_capacity -> allocation monitor (asserts cap*size_of::<T>() <= 128*|input|+256, then reserves the requested capacity)
decode_tags!(c10_decode_total_null, [31]);

// @verif prop=C10 kernel=K2 tiers=thorough timeout=1800 unwind=1 stubbing=yes mem=12
// @verif what=decode_value total on arbitrary bytes with tag byte 0 (unknown0): Ok/Err, no panic, no out-of-bounds read, consumed <= input, unknown tags rejected
// @verif fns=retain::{decode_value,RetainReader::*}
// @verif bound=all byte strings of length 1, 2, 3, 5, 9 or 10 whose first byte is 0 (tag byte and length concrete per call site, remaining bytes symbolic)
// @verif stub=alloc::vec::Vec::<T>::with_capacity -> allocation monitor (asserts cap*size_of::<T>() <= 128*|input|+256, then reserves the requested capacity)
decode_tags!(c10_decode_total_unknown0, [0]);

// @verif prop=C10 kernel=K2 tiers=thorough timeout=1800 unwind=1 stubbing=yes mem=12
// @verif what=decode_value total on arbitrary bytes with tag byte 32 (unknown32): Ok/Err, no panic, no out-of-bounds read, consumed <= input, unknown tags rejected
// @verif fns=retain::{decode_value,RetainReader::*}
// @verif bound=all byte strings of length 1, 2, 3, 5, 9 or 10 whose first byte is 32 (tag byte and length concrete per call site, remaining bytes symbolic)
// @verif stub=alloc::vec::Vec::<T>::with_capacity -> allocation monitor (asserts cap*size_of::<T>() <= 128*|input|+256, then reserves the requested capacity)
decode_tags!(c10_decode_total_unknown32, [32]);

// @verif prop=C10 kernel=K2 tiers=quick,thorough timeout=1800 unwind=1 stubbing=yes mem=12
// @verif what=decode_value total on arbitrary bytes with tag byte 255 (unknown255): Ok/Err, no panic, no out-of-bounds read, consumed <= input, unknown tags rejected
// @verif fns=retain::{decode_value,RetainReader::*}
// @verif bound=all byte strings of length 1, 2, 3, 5, 9 or 10 whose first byte is 255 (tag byte and length concrete per call site, remaining bytes symbolic)
// @verif stub=alloc::vec::Vec::<T>::with_capacity -> allocation monitor (asserts cap*size_of::<T>() <= 128*|input|+256, then reserves the requested capacity)
decode_tags!(c10_decode_total_unknown255, [255]);

// (probed, not registered: decode_value on ARRAY headers - even the 9-byte input [28][len][dims] with only one
//  of len/dims symbolic exhausts 12 GB: the arm owns a Vec<Value> whose drop glue CBMC explores for every
//  variant on each early-return path. The two `Vec::with_capacity(count read from the file)` sites of the
//  array arm are therefore OUTSIDE the claim; see DESIGN.md section 6, S5.)

// (probed, not registered: decode_snapshot on files of 0, 3 and 10 bytes exhausts 12 GB although every read
//  folds to a constant; the framing of the snapshot file is therefore OUTSIDE the claim - only decode_value is in.)

// (probed, not registered: round trip of STRING/WSTRING/ENUM values - out of memory at 16 GB.)
