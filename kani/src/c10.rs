//! C10 — retain file: lossless codec (K1), total decoder with bounded allocation (K2).
//! K3 (crash atomicity of the save routine) is decided by /verif/smt/c10_crash.py (z3/cvc5).
use trust_runtime::error::RuntimeError;
use trust_runtime::retain::verif_export::{decode_snapshot_bytes, decode_value_bytes, encode_snapshot_vec, encode_value_vec};
use trust_runtime::value::{
    ArrayValue, DateTimeValue, DateValue, Duration, EnumValue, LDateTimeValue, LDateValue, LTimeOfDayValue,
    StructValue, TimeOfDayValue, Value,
};

/// encode -> decode one value; hands the decoded value to `$check` by reference.
macro_rules! roundtrip {
    ($val:expr, |$back:ident| $check:expr) => {{
        let val: Value = $val;
        match encode_value_vec(&val) {
            Ok(bytes) => {
                match decode_value_bytes(&bytes) {
                    Ok(pair) => {
                        let $back = &pair.0;
                        assert!($check, "C10: decode(encode(v)) differs from v");
                        assert!(pair.1 == bytes.len(), "C10: decoder did not consume exactly the encoded length");
                        std::mem::forget(pair);
                    }
                    Err(e) => { std::mem::forget(e); assert!(false, "C10: encoded value does not decode"); }
                }
                std::mem::forget(bytes);
            }
            Err(e) => { std::mem::forget(e); assert!(false, "C10: retainable value does not encode"); }
        }
        std::mem::forget(val);
    }};
}

// @verif prop=C10 kernel=K1 tiers=quick,thorough timeout=900
// @verif what=retain codec round trip for BOOL and the 8 integer types: decode(encode(v)) is bit-identical and consumes exactly the encoded bytes
// @verif fns=retain::{encode_value,decode_value,RetainReader::*}
// @verif bound=every payload value of BOOL, SINT, INT, DINT, LINT, USINT, UINT, UDINT, ULINT
#[kani::proof]
#[kani::unwind(10)]
fn c10_roundtrip_integers() {
    let k: u8 = kani::any();
    match k % 9 {
        0 => { let x: bool = kani::any(); roundtrip!(Value::Bool(x), |b| matches!(b, Value::Bool(y) if *y == x)) }
        1 => { let x: i8 = kani::any(); roundtrip!(Value::SInt(x), |b| matches!(b, Value::SInt(y) if *y == x)) }
        2 => { let x: i16 = kani::any(); roundtrip!(Value::Int(x), |b| matches!(b, Value::Int(y) if *y == x)) }
        3 => { let x: i32 = kani::any(); roundtrip!(Value::DInt(x), |b| matches!(b, Value::DInt(y) if *y == x)) }
        4 => { let x: i64 = kani::any(); roundtrip!(Value::LInt(x), |b| matches!(b, Value::LInt(y) if *y == x)) }
        5 => { let x: u8 = kani::any(); roundtrip!(Value::USInt(x), |b| matches!(b, Value::USInt(y) if *y == x)) }
        6 => { let x: u16 = kani::any(); roundtrip!(Value::UInt(x), |b| matches!(b, Value::UInt(y) if *y == x)) }
        7 => { let x: u32 = kani::any(); roundtrip!(Value::UDInt(x), |b| matches!(b, Value::UDInt(y) if *y == x)) }
        _ => { let x: u64 = kani::any(); roundtrip!(Value::ULInt(x), |b| matches!(b, Value::ULInt(y) if *y == x)) }
    }
    kani::cover!(k % 9 == 4);
    kani::cover!(k % 9 == 0);
}

// @verif prop=C10 kernel=K1 tiers=quick,thorough timeout=900
// @verif what=retain codec round trip for REAL, LREAL (bit patterns incl. NaN), BYTE, WORD, DWORD, LWORD, CHAR, WCHAR, NULL
// @verif fns=retain::{encode_value,decode_value,RetainReader::*}
// @verif bound=every payload bit pattern of the listed types
#[kani::proof]
#[kani::unwind(10)]
fn c10_roundtrip_bits_floats_chars() {
    let k: u8 = kani::any();
    match k % 9 {
        0 => { let x: u32 = kani::any(); roundtrip!(Value::Real(f32::from_bits(x)), |b| matches!(b, Value::Real(y) if y.to_bits() == x)) }
        1 => { let x: u64 = kani::any(); roundtrip!(Value::LReal(f64::from_bits(x)), |b| matches!(b, Value::LReal(y) if y.to_bits() == x)) }
        2 => { let x: u8 = kani::any(); roundtrip!(Value::Byte(x), |b| matches!(b, Value::Byte(y) if *y == x)) }
        3 => { let x: u16 = kani::any(); roundtrip!(Value::Word(x), |b| matches!(b, Value::Word(y) if *y == x)) }
        4 => { let x: u32 = kani::any(); roundtrip!(Value::DWord(x), |b| matches!(b, Value::DWord(y) if *y == x)) }
        5 => { let x: u64 = kani::any(); roundtrip!(Value::LWord(x), |b| matches!(b, Value::LWord(y) if *y == x)) }
        6 => { let x: u8 = kani::any(); roundtrip!(Value::Char(x), |b| matches!(b, Value::Char(y) if *y == x)) }
        7 => { let x: u16 = kani::any(); roundtrip!(Value::WChar(x), |b| matches!(b, Value::WChar(y) if *y == x)) }
        _ => { roundtrip!(Value::Null, |b| matches!(b, Value::Null)) }
    }
    kani::cover!(k % 9 == 1);
    kani::cover!(k % 9 == 8);
}

// @verif prop=C10 kernel=K1 tiers=quick,thorough timeout=900
// @verif what=retain codec round trip for TIME, LTIME, DATE, LDATE, TOD, LTOD, DT, LDT at nanosecond/tick resolution
// @verif fns=retain::{encode_value,decode_value,RetainReader::*}
// @verif bound=every i64 payload of the 8 duration/date types
#[kani::proof]
#[kani::unwind(10)]
fn c10_roundtrip_time_date() {
    let k: u8 = kani::any();
    let x: i64 = kani::any();
    match k % 8 {
        0 => roundtrip!(Value::Time(Duration::from_nanos(x)), |b| matches!(b, Value::Time(y) if y.as_nanos() == x)),
        1 => roundtrip!(Value::LTime(Duration::from_nanos(x)), |b| matches!(b, Value::LTime(y) if y.as_nanos() == x)),
        2 => roundtrip!(Value::Date(DateValue::new(x)), |b| matches!(b, Value::Date(y) if y.ticks() == x)),
        3 => roundtrip!(Value::LDate(LDateValue::new(x)), |b| matches!(b, Value::LDate(y) if y.nanos() == x)),
        4 => roundtrip!(Value::Tod(TimeOfDayValue::new(x)), |b| matches!(b, Value::Tod(y) if y.ticks() == x)),
        5 => roundtrip!(Value::LTod(LTimeOfDayValue::new(x)), |b| matches!(b, Value::LTod(y) if y.nanos() == x)),
        6 => roundtrip!(Value::Dt(DateTimeValue::new(x)), |b| matches!(b, Value::Dt(y) if y.ticks() == x)),
        _ => roundtrip!(Value::Ldt(LDateTimeValue::new(x)), |b| matches!(b, Value::Ldt(y) if y.nanos() == x)),
    }
    kani::cover!(k % 8 == 0 && x % 1_000_000 != 0);
    kani::cover!(k % 8 == 7 && x < 0);
}
