//! C06 — task scheduling. K1: one step of the real `collect_ready_tasks` from an ARBITRARY scheduling
//! state (inductive step => timelines of any length), 1 or 2 tasks, against the IEC task model.
use crate::common::fixed_random_state;
use smol_str::SmolStr;
use trust_runtime::task::{TaskConfig, TaskState};
use trust_runtime::value::{Duration, Value};
use trust_runtime::verif_runtime::core::{minimal_runtime, put_task, set_time, storage_mut, task_state_of};
use trust_runtime::verif_runtime::cycle::collect_ready_tasks_x;

struct TaskIn { interval: i64, single: bool, last_single: bool, last_run: i64, overruns: u64 }

fn any_task_in(now: i64) -> TaskIn {
    let t = TaskIn { interval: kani::any(), single: kani::any(), last_single: kani::any(), last_run: kani::any(), overruns: kani::any() };
    // reachable scheduling states: last_run is a past clock value (the clock is non-negative and monotone)
    kani::assume(t.last_run >= 0 && t.last_run <= now);
    t
}

/// IEC task model for one task at clock `now`: (due?, due_at, new last_run, new last_single, overrun delta)
fn model(t: &TaskIn, has_single: bool, single_now: bool, now: i64) -> (bool, i64, i64, bool, u64) {
    let s = has_single && single_now;
    let event_due = !t.last_single && s;
    let elapsed = (now as i128) - (t.last_run as i128);
    let periodic_due = t.interval > 0 && !s && elapsed >= t.interval as i128;
    let mut missed: u64 = 0;
    let mut due_at: i128 = now as i128;
    let mut last_run = t.last_run;
    if periodic_due {
        let n = elapsed / (t.interval as i128);
        if n > 1 { missed = (n - 1) as u64; }
        let periodic_at = t.last_run as i128 + t.interval as i128;
        due_at = if event_due && (now as i128) <= periodic_at { now as i128 } else { periodic_at };
        last_run = now;
    }
    (event_due || periodic_due, due_at as i64, last_run, s, missed)
}

// @verif prop=C06 kernel=K1 tiers=quick,thorough timeout=2400 unwind=1 stubbing=yes mem=16 loops=collect_ready_tasks:3,simd_bitmask_impl:17,Iterator:3,IntoIter:3,from_iter:3,memcmp:3,compare_bytes:3,fold:3,extend:3
// @verif what=one step of collect_ready_tasks for a single task from an arbitrary scheduling state: due exactly when the IEC model says (periodic: INTERVAL>0, SINGLE false, elapsed>=INTERVAL; event: rising edge of SINGLE), at most once, due_at, last_run/last_single update and overrun accounting (missed = floor(elapsed/INTERVAL)-1, not replayed)
// @verif fns=runtime::cycle::Runtime::collect_ready_tasks, memory::VariableStorage::get_global
// @verif bound=1 task; INTERVAL any i64 (incl. 0 and negative), SINGLE present or absent with any BOOL value, pre-state (last_single, last_run <= now, overrun_count) arbitrary, clock now any i64 >= 0
// @verif stub=std::hash::RandomState::new -> fixed keys
// @verif assume=0 <= last_run <= now (clock values are non-negative and monotone)
// @verif outside=the (priority, due_at, index) sort and the each-task-once execution loop are inline in execute_cycle, which needs program instances and an EvalContext (not reached); more than 2 tasks; configuration compilation
#[kani::proof]
#[kani::stub(std::hash::RandomState::new, fixed_random_state)]
fn c06_single_task_step() {
    let now: i64 = kani::any();
    kani::assume(now >= 0);
    let t = any_task_in(now);
    let has_single: bool = kani::any();
    let mut rt = minimal_runtime();
    set_time(&mut rt, Duration::from_nanos(now));
    if has_single { storage_mut(&mut rt).set_global("s", Value::Bool(t.single)); }
    put_task(&mut rt,
        TaskConfig { name: SmolStr::new_inline("t"), interval: Duration::from_nanos(t.interval),
                     single: if has_single { Some(SmolStr::new_inline("s")) } else { None },
                     priority: kani::any(), programs: Vec::new(), fb_instances: Vec::new() },
        TaskState { last_single: t.last_single, last_run: Duration::from_nanos(t.last_run), overrun_count: t.overruns });
    let r = collect_ready_tasks_x(&mut rt);
    let (due, due_at, last_run, last_single, missed) = model(&t, has_single, t.single, now);
    match &r {
        Ok(ready) => {
            assert!(ready.len() <= 1, "C06: a task was activated more than once in one cycle");
            assert!((ready.len() == 1) == due, "C06: due-ness differs from the IEC task model");
            if due {
                assert!(ready[0].0 == 0);
                assert!(ready[0].1 == due_at, "C06: due time differs from the model");
            }
            let st = task_state_of(&rt, "t");
            assert!(st.is_some());
            let (ls, lr, oc) = st.unwrap();
            assert!(ls == last_single, "C06: SINGLE edge memory not updated");
            assert!(lr == last_run, "C06: last activation time differs from the model");
            assert!(oc == t.overruns.saturating_add(missed), "C06: overrun count differs from floor(elapsed/INTERVAL)-1");
        }
        Err(_) => assert!(false, "C06: scheduling step failed on a well-formed task"),
    }
    kani::cover!(due && missed > 0);
    kani::cover!(due && has_single && t.single && !t.last_single);
    kani::cover!(!due && t.interval > 0);
    std::mem::forget(r);
    std::mem::forget(rt);
}
