//! C03 — a variable always holds a value of its declared type. Tier A write paths:
//!  path 2: FOR control update (`coerce_loop_value`), path 3: I/O latch / publish (`coerce_from_io`,
//!  `coerce_to_io`). One inductive step per path: the produced value has the declared tag and is in range.
use trust_runtime::error::RuntimeError;
use trust_runtime::eval::stmt::verif_export::{coerce_loop_value_x, int_value_x};
use trust_runtime::io::verif_export::{coerce_from_io_x, coerce_to_io_x};
use trust_runtime::io::IoSize;
use trust_runtime::value::Value;
use trust_hir::TypeId;

macro_rules! loop_case {
    ($v:ident, $t:ty, $zero:expr) => {{
        let x: i64 = kani::any();
        let template = Value::$v($zero);
        let r = coerce_loop_value_x(&template, x);
        let fits = x >= (<$t>::MIN as i128) as i64 as i64 && (x as i128) >= (<$t>::MIN as i128) && (x as i128) <= (<$t>::MAX as i128);
        match &r {
            Ok(Value::$v(y)) => { assert!(fits, "C03: FOR control value outside the range of its type was stored"); assert!((*y as i128) == x as i128, "C03: FOR control value changed by coercion"); }
            Ok(_) => assert!(false, "C03: FOR control update changed the type tag of the control variable"),
            Err(e) => { assert!(!fits, "C03: FOR control value in range was refused");
                        assert!(matches!(e, RuntimeError::Overflow | RuntimeError::TypeMismatch)); }
        }
        kani::cover!(fits);
        std::mem::forget(r);
        std::mem::forget(template);
    }};
}

// @verif prop=C03 kernel=K2 tiers=quick,thorough timeout=1200 unwind=1
// @verif what=FOR control update: coerce_loop_value returns a value with exactly the control variable's tag and the same mathematical value, or refuses when the value is outside the type's range - for all 8 integer control types
// @verif fns=eval::stmt::coerce_loop_value
// @verif bound=every i64 loop value, control templates SINT INT DINT LINT USINT UINT UDINT (ULINT separately)
#[kani::proof]
fn c03_for_control_keeps_declared_type() {
    let k: u8 = kani::any();
    match k % 7 {
        0 => loop_case!(SInt, i8, 0), 1 => loop_case!(Int, i16, 0), 2 => loop_case!(DInt, i32, 0), 3 => loop_case!(LInt, i64, 0),
        4 => loop_case!(USInt, u8, 0), 5 => loop_case!(UInt, u16, 0), _ => loop_case!(UDInt, u32, 0),
    }
}

// @verif prop=C03,C01 kernel=K2 tiers=quick,thorough timeout=1200 unwind=1
// @verif what=FOR bounds of type ULINT: int_value must not silently reinterpret values above LINT max as negative numbers (the loop would run with a counter that is not the declared value and fail with a static-class error when it is written back); a refusal must be a value-dependent fault
// @verif fns=eval::stmt::int_value
// @verif bound=every u64 payload
#[kani::proof]
fn c03_for_bound_ulint_not_reinterpreted() {
    let x: u64 = kani::any();
    let r = int_value_x(Value::ULInt(x));
    match &r {
        Ok(v) => assert!(*v as i128 == x as i128, "a ULINT FOR bound above 2^63-1 is reinterpreted as a negative number"),
        Err(e) => assert!(matches!(e, RuntimeError::Overflow), "a ULINT FOR bound is refused with a static-class error"),
    }
    kani::cover!(x > i64::MAX as u64);
    kani::cover!(x == 5);
    std::mem::forget(r);
}

macro_rules! io_case {
    ($tid:ident, $raw:ident, $rawt:ty, $typed:ident, $size:ident, |$b:ident| $expect:expr) => {{
        let bits: $rawt = kani::any();
        let r = coerce_from_io_x(Value::$raw(bits), TypeId::$tid);
        match &r {
            Ok(Value::$typed(y)) => { let $b = bits; assert!(*y == $expect, "latched input decodes to a different value (bound variable != decode(latched bytes))"); }
            Ok(_) => assert!(false, "C03: I/O latch produced a value whose tag is not the bound variable's declared type"),
            Err(_) => assert!(false, "I/O latch refused a raw value of the right width"),
        }
        // and back: publishing a value of the declared type yields the same raw bits
        if let Ok(v) = r {
            let w = coerce_to_io_x(v, TypeId::$tid, IoSize::$size);
            assert!(matches!(&w, Ok(Value::$raw(back)) if *back == bits), "publish(latch(bits)) differs from bits (published bytes != encode(variable))");
            std::mem::forget(w);
        }
    }};
}

// @verif prop=C03,C07 kernel=K3 tiers=quick,thorough timeout=1500 unwind=1
// @verif what=I/O latch: coerce_from_io returns a value whose tag is the bound variable's declared elementary type for every raw image value, and coerce_to_io(coerce_from_io(bits)) = bits (integers)
// @verif fns=io::{coerce_from_io,coerce_to_io,expected_size_for_type}
// @verif bound=every raw BYTE/WORD/DWORD/LWORD value for declared types SINT UINT DINT ULINT
#[kani::proof]
fn c03_io_latch_keeps_declared_type_ints() {
    // probed: all 8 integer types in one harness (16 calls) exhaust 12 GB; split in two
    let k: u8 = kani::any();
    match k % 4 {
        0 => io_case!(SINT, Byte, u8, SInt, Byte, |b| b as i8),
        1 => io_case!(UINT, Word, u16, UInt, Word, |b| b),
        2 => io_case!(DINT, DWord, u32, DInt, DWord, |b| b as i32),
        _ => io_case!(ULINT, LWord, u64, ULInt, LWord, |b| b),
    }
    kani::cover!(k % 4 == 2);
    kani::cover!(k % 4 == 3);
}

// @verif prop=C03,C07 kernel=K3 tiers=quick,thorough timeout=1500 unwind=1
// @verif what=I/O latch (second half of the integer types): USINT INT UDINT LINT
// @verif fns=io::{coerce_from_io,coerce_to_io,expected_size_for_type}
// @verif bound=every raw BYTE/WORD/DWORD/LWORD value for declared types USINT INT UDINT LINT
#[kani::proof]
fn c03_io_latch_keeps_declared_type_ints2() {
    let k: u8 = kani::any();
    match k % 4 {
        0 => io_case!(USINT, Byte, u8, USInt, Byte, |b| b),
        1 => io_case!(INT, Word, u16, Int, Word, |b| b as i16),
        2 => io_case!(UDINT, DWord, u32, UDInt, DWord, |b| b),
        _ => io_case!(LINT, LWord, u64, LInt, LWord, |b| b as i64),
    }
    kani::cover!(k % 4 == 1);
    kani::cover!(k % 4 == 3);
}

// @verif prop=C03 kernel=K3 tiers=quick,thorough timeout=1500 unwind=1
// @verif what=I/O latch for BOOL, BYTE, WORD, DWORD, LWORD, CHAR, WCHAR: declared tag preserved, value unchanged, and a raw value of the wrong width is refused rather than stored
// @verif fns=io::{coerce_from_io,coerce_to_io}
// @verif bound=every raw value of the matching width; one wrong-width raw value per declared type
#[kani::proof]
fn c03_io_latch_keeps_declared_type_bits() {
    let k: u8 = kani::any();
    match k % 9 {
        0 => { let b: bool = kani::any(); let r = coerce_from_io_x(Value::Bool(b), TypeId::BOOL);
               assert!(matches!(&r, Ok(Value::Bool(y)) if *y == b), "C03: BOOL latch changed tag or value"); std::mem::forget(r); }
        1 => io_case!(BYTE, Byte, u8, Byte, Byte, |b| b),
        2 => io_case!(WORD, Word, u16, Word, Word, |b| b),
        3 => io_case!(DWORD, DWord, u32, DWord, DWord, |b| b),
        4 => io_case!(LWORD, LWord, u64, LWord, LWord, |b| b),
        5 => io_case!(CHAR, Byte, u8, Char, Byte, |b| b),
        6 => io_case!(WCHAR, Word, u16, WChar, Word, |b| b),
        7 => { let r = coerce_from_io_x(Value::Word(kani::any()), TypeId::SINT);
               assert!(r.is_err(), "C03: a WORD image value was latched into a SINT variable"); std::mem::forget(r); }
        _ => { let r = coerce_from_io_x(Value::Byte(kani::any()), TypeId::DINT);
               assert!(r.is_err(), "C03: a BYTE image value was latched into a DINT variable"); std::mem::forget(r); }
    }
    kani::cover!(k % 9 == 0);
    kani::cover!(k % 9 == 8);
}

// @verif prop=C03 kernel=K3 tiers=thorough timeout=1500 unwind=1
// @verif what=I/O latch for REAL and LREAL: declared tag preserved, bit pattern preserved both ways
// @verif fns=io::{coerce_from_io,coerce_to_io}
// @verif bound=every raw DWORD / LWORD bit pattern
#[kani::proof]
fn c03_io_latch_keeps_declared_type_reals() {
    if kani::any() {
        let bits: u32 = kani::any();
        let r = coerce_from_io_x(Value::DWord(bits), TypeId::REAL);
        assert!(matches!(&r, Ok(Value::Real(y)) if y.to_bits() == bits), "C03: REAL latch changed tag or bits");
        std::mem::forget(r);
        let w = coerce_to_io_x(Value::Real(f32::from_bits(bits)), TypeId::REAL, IoSize::DWord);
        assert!(matches!(&w, Ok(Value::DWord(b)) if *b == bits), "C03: REAL publish changed bits");
        std::mem::forget(w);
    } else {
        let bits: u64 = kani::any();
        let r = coerce_from_io_x(Value::LWord(bits), TypeId::LREAL);
        assert!(matches!(&r, Ok(Value::LReal(y)) if y.to_bits() == bits), "C03: LREAL latch changed tag or bits");
        std::mem::forget(r);
        let w = coerce_to_io_x(Value::LReal(f64::from_bits(bits)), TypeId::LREAL, IoSize::LWord);
        assert!(matches!(&w, Ok(Value::LWord(b)) if *b == bits), "C03: LREAL publish changed bits");
        std::mem::forget(w);
    }
    kani::cover!(true);
    kani::cover!(true);
}

// =====================================================================================
// Path 4: initialiser / debugger-write coercion (harness::coerce_value_to_type)
// =====================================================================================
use trust_runtime::harness::coerce_value_to_type;
use trust_runtime::value::{DateTimeValue, DateValue, Duration, LDateTimeValue, LDateValue, LTimeOfDayValue, TimeOfDayValue};

/// One call: source `$sv($st)` coerced to integer-like target `$tv` (`$tt`, TypeId::$tid).
macro_rules! init_int_case {
    ($tid:ident, $tv:ident, $tt:ty, $sv:ident, $st:ty) => {{
        let x: $st = kani::any();
        let r = coerce_value_to_type(Value::$sv(x), TypeId::$tid);
        let fits = (x as i128) >= (<$tt>::MIN as i128) && (x as i128) <= (<$tt>::MAX as i128);
        match &r {
            Ok(Value::$tv(y)) => { assert!(fits, "C03: initialiser outside the declared type's range was stored");
                                   assert!((*y as i128) == (x as i128), "C03: initialiser value changed by coercion"); }
            Ok(_) => assert!(false, "C03: initialiser coercion produced a value whose tag is not the declared type"),
            Err(_) => assert!(!fits, "C03: an initialiser inside the declared type's range was refused"),
        }
        kani::cover!(fits);
        std::mem::forget(r);
    }};
}

macro_rules! init_int_target {
    ($name:ident, $tid:ident, $tv:ident, $tt:ty) => {
        #[kani::proof]
        fn $name() {
            let k: u8 = kani::any();
            match k % 8 {
                0 => init_int_case!($tid, $tv, $tt, SInt, i8), 1 => init_int_case!($tid, $tv, $tt, Int, i16),
                2 => init_int_case!($tid, $tv, $tt, DInt, i32), 3 => init_int_case!($tid, $tv, $tt, LInt, i64),
                4 => init_int_case!($tid, $tv, $tt, USInt, u8), 5 => init_int_case!($tid, $tv, $tt, UInt, u16),
                6 => init_int_case!($tid, $tv, $tt, UDInt, u32), _ => init_int_case!($tid, $tv, $tt, ULInt, u64),
            }
        }
    };
}

// @verif prop=C03 kernel=K4 tiers=thorough timeout=1800 unwind=1 mem=12
// @verif what=initialiser coercion to SINT: from every integer source type the stored value has tag SINT and the same mathematical value, or the initialiser is refused exactly when it is outside the range of SINT
// @verif fns=harness::coerce::{coerce_value_to_type,coerce_signed,coerce_unsigned,coerce_bitstring}
// @verif bound=every payload of the 8 integer source types (source tag concrete per call site)
init_int_target!(c03_init_coercion_sint, SINT, SInt, i8);

// @verif prop=C03 kernel=K4 tiers=quick,thorough timeout=1800 unwind=1 mem=12
// @verif what=initialiser coercion to INT: from every integer source type the stored value has tag INT and the same mathematical value, or the initialiser is refused exactly when it is outside the range of INT
// @verif fns=harness::coerce::{coerce_value_to_type,coerce_signed,coerce_unsigned,coerce_bitstring}
// @verif bound=every payload of the 8 integer source types (source tag concrete per call site)
init_int_target!(c03_init_coercion_int, INT, Int, i16);

// @verif prop=C03 kernel=K4 tiers=thorough timeout=1800 unwind=1 mem=12
// @verif what=initialiser coercion to DINT: from every integer source type the stored value has tag DINT and the same mathematical value, or the initialiser is refused exactly when it is outside the range of DINT
// @verif fns=harness::coerce::{coerce_value_to_type,coerce_signed,coerce_unsigned,coerce_bitstring}
// @verif bound=every payload of the 8 integer source types (source tag concrete per call site)
init_int_target!(c03_init_coercion_dint, DINT, DInt, i32);

// @verif prop=C03 kernel=K4 tiers=thorough timeout=1800 unwind=1 mem=12
// @verif what=initialiser coercion to LINT: from every integer source type the stored value has tag LINT and the same mathematical value, or the initialiser is refused exactly when it is outside the range of LINT
// @verif fns=harness::coerce::{coerce_value_to_type,coerce_signed,coerce_unsigned,coerce_bitstring}
// @verif bound=every payload of the 8 integer source types (source tag concrete per call site)
init_int_target!(c03_init_coercion_lint, LINT, LInt, i64);

// @verif prop=C03 kernel=K4 tiers=thorough timeout=1800 unwind=1 mem=12
// @verif what=initialiser coercion to USINT: from every integer source type the stored value has tag USINT and the same mathematical value, or the initialiser is refused exactly when it is outside the range of USINT
// @verif fns=harness::coerce::{coerce_value_to_type,coerce_signed,coerce_unsigned,coerce_bitstring}
// @verif bound=every payload of the 8 integer source types (source tag concrete per call site)
init_int_target!(c03_init_coercion_usint, USINT, USInt, u8);

// @verif prop=C03 kernel=K4 tiers=thorough timeout=1800 unwind=1 mem=12
// @verif what=initialiser coercion to UINT: from every integer source type the stored value has tag UINT and the same mathematical value, or the initialiser is refused exactly when it is outside the range of UINT
// @verif fns=harness::coerce::{coerce_value_to_type,coerce_signed,coerce_unsigned,coerce_bitstring}
// @verif bound=every payload of the 8 integer source types (source tag concrete per call site)
init_int_target!(c03_init_coercion_uint, UINT, UInt, u16);

// @verif prop=C03 kernel=K4 tiers=thorough timeout=1800 unwind=1 mem=12
// @verif what=initialiser coercion to UDINT: from every integer source type the stored value has tag UDINT and the same mathematical value, or the initialiser is refused exactly when it is outside the range of UDINT
// @verif fns=harness::coerce::{coerce_value_to_type,coerce_signed,coerce_unsigned,coerce_bitstring}
// @verif bound=every payload of the 8 integer source types (source tag concrete per call site)
init_int_target!(c03_init_coercion_udint, UDINT, UDInt, u32);

// @verif prop=C03 kernel=K4 tiers=quick,thorough timeout=1800 unwind=1 mem=12
// @verif what=initialiser coercion to ULINT: from every integer source type the stored value has tag ULINT and the same mathematical value, or the initialiser is refused exactly when it is outside the range of ULINT
// @verif fns=harness::coerce::{coerce_value_to_type,coerce_signed,coerce_unsigned,coerce_bitstring}
// @verif bound=every payload of the 8 integer source types (source tag concrete per call site)
init_int_target!(c03_init_coercion_ulint, ULINT, ULInt, u64);

// @verif prop=C03 kernel=K4 tiers=thorough timeout=1800 unwind=1 mem=12
// @verif what=initialiser coercion to BYTE: from every integer source type the stored value has tag BYTE and the same mathematical value, or the initialiser is refused exactly when it is outside the range of BYTE
// @verif fns=harness::coerce::{coerce_value_to_type,coerce_signed,coerce_unsigned,coerce_bitstring}
// @verif bound=every payload of the 8 integer source types (source tag concrete per call site)
init_int_target!(c03_init_coercion_byte, BYTE, Byte, u8);

// @verif prop=C03 kernel=K4 tiers=quick,thorough timeout=1800 unwind=1 mem=12
// @verif what=initialiser coercion to WORD: from every integer source type the stored value has tag WORD and the same mathematical value, or the initialiser is refused exactly when it is outside the range of WORD
// @verif fns=harness::coerce::{coerce_value_to_type,coerce_signed,coerce_unsigned,coerce_bitstring}
// @verif bound=every payload of the 8 integer source types (source tag concrete per call site)
init_int_target!(c03_init_coercion_word, WORD, Word, u16);

// @verif prop=C03 kernel=K4 tiers=thorough timeout=1800 unwind=1 mem=12
// @verif what=initialiser coercion to DWORD: from every integer source type the stored value has tag DWORD and the same mathematical value, or the initialiser is refused exactly when it is outside the range of DWORD
// @verif fns=harness::coerce::{coerce_value_to_type,coerce_signed,coerce_unsigned,coerce_bitstring}
// @verif bound=every payload of the 8 integer source types (source tag concrete per call site)
init_int_target!(c03_init_coercion_dword, DWORD, DWord, u32);

// @verif prop=C03 kernel=K4 tiers=thorough timeout=1800 unwind=1 mem=12
// @verif what=initialiser coercion to LWORD: from every integer source type the stored value has tag LWORD and the same mathematical value, or the initialiser is refused exactly when it is outside the range of LWORD
// @verif fns=harness::coerce::{coerce_value_to_type,coerce_signed,coerce_unsigned,coerce_bitstring}
// @verif bound=every payload of the 8 integer source types (source tag concrete per call site)
init_int_target!(c03_init_coercion_lword, LWORD, LWord, u64);

macro_rules! init_exact {
    ($tid:ident, $src:expr, |$r:ident| $ok:expr) => {{
        let $r = coerce_value_to_type($src, TypeId::$tid);
        assert!($ok, "C03: initialiser coercion stored a value whose tag is not the declared type (or refused the declared type itself)");
        std::mem::forget($r);
    }};
}

// @verif prop=C03 kernel=K4 tiers=quick,thorough timeout=1800 unwind=1 mem=12
// @verif what=initialiser coercion for TIME/LTIME/DATE/LDATE/TOD/LTOD/DT/LDT/BOOL targets: the stored value always carries the declared tag (TIME <-> LTIME are re-tagged with the same duration), every other source tag is refused
// @verif fns=harness::coerce::{coerce_value_to_type,coerce_time,coerce_date,coerce_tod,coerce_dt}
// @verif bound=every i64 payload; per target the declared tag, its short/long sibling and one foreign tag (DINT)
#[kani::proof]
fn c03_init_coercion_time_date_bool() {
    let x: i64 = kani::any();
    let d = Duration::from_nanos(x);
    let k: u8 = kani::any();
    match k % 14 {
        0 => init_exact!(TIME, Value::Time(d), |r| matches!(&r, Ok(Value::Time(y)) if y.as_nanos() == x)),
        1 => init_exact!(TIME, Value::LTime(d), |r| matches!(&r, Ok(Value::Time(y)) if y.as_nanos() == x)),
        2 => init_exact!(LTIME, Value::LTime(d), |r| matches!(&r, Ok(Value::LTime(y)) if y.as_nanos() == x)),
        3 => init_exact!(LTIME, Value::Time(d), |r| matches!(&r, Ok(Value::LTime(y)) if y.as_nanos() == x)),
        4 => init_exact!(TIME, Value::DInt(x as i32), |r| r.is_err()),
        5 => init_exact!(DATE, Value::Date(DateValue::new(x)), |r| matches!(&r, Ok(Value::Date(y)) if y.ticks() == x)),
        6 => init_exact!(DATE, Value::LDate(LDateValue::new(x)), |r| r.is_err() || matches!(&r, Ok(Value::Date(_)))),
        7 => init_exact!(LDATE, Value::LDate(LDateValue::new(x)), |r| matches!(&r, Ok(Value::LDate(y)) if y.nanos() == x)),
        8 => init_exact!(TOD, Value::Tod(TimeOfDayValue::new(x)), |r| matches!(&r, Ok(Value::Tod(y)) if y.ticks() == x)),
        9 => init_exact!(LTOD, Value::Tod(TimeOfDayValue::new(x)), |r| r.is_err() || matches!(&r, Ok(Value::LTod(_)))),
        10 => init_exact!(DT, Value::Dt(DateTimeValue::new(x)), |r| matches!(&r, Ok(Value::Dt(y)) if y.ticks() == x)),
        11 => init_exact!(LDT, Value::Dt(DateTimeValue::new(x)), |r| r.is_err() || matches!(&r, Ok(Value::Ldt(_)))),
        12 => init_exact!(BOOL, Value::Bool(x & 1 == 1), |r| matches!(&r, Ok(Value::Bool(y)) if *y == (x & 1 == 1))),
        _ => init_exact!(BOOL, Value::DInt(x as i32), |r| r.is_err()),
    }
    kani::cover!(k % 14 == 3);
    kani::cover!(k % 14 == 13);
}

// @verif prop=C03,C07 kernel=K3 tiers=quick,thorough timeout=1500 unwind=1
// @verif what=I/O latch into a variable whose declared type has no image conversion (TIME, LTIME, DATE, DT): the raw DWORD/LWORD is never stored as-is (the latch faults or yields the declared tag)
// @verif fns=io::coerce_from_io
// @verif bound=every raw DWORD / LWORD value; declared types TIME, DATE, DT (at %ID) and LTIME (at %IL)
#[kani::proof]
fn c03_io_latch_untyped_targets_never_store_raw() {
    let k: u8 = kani::any();
    let r = match k % 4 {
        0 => coerce_from_io_x(Value::DWord(kani::any()), TypeId::TIME),
        1 => coerce_from_io_x(Value::DWord(kani::any()), TypeId::DATE),
        2 => coerce_from_io_x(Value::DWord(kani::any()), TypeId::DT),
        _ => coerce_from_io_x(Value::LWord(kani::any()), TypeId::LTIME),
    };
    assert!(!matches!(&r, Ok(Value::DWord(_)) | Ok(Value::LWord(_))), "C03: a raw image word was latched into a variable of a date/time type");
    kani::cover!(k % 4 == 0);
    kani::cover!(k % 4 == 3);
    std::mem::forget(r);
}
macro_rules! tag_case {
    ($tid:ident, $src:expr, |$r:ident| $ok:expr) => {{
        let $r = coerce_value_to_type($src, TypeId::$tid);
        assert!($ok, "C03: initialiser coercion stored a value whose tag is not the declared type (or refused a compatible initialiser)");
        std::mem::forget($r);
    }};
}

// @verif prop=C03 kernel=K4 tiers=quick,thorough timeout=1800 unwind=1 mem=12
// @verif what=initialiser coercion for REAL / LREAL / CHAR / WCHAR targets: numeric initialisers of any integer or real type are stored with the declared real tag (integers up to 2^24 resp. 2^53 exactly), CHAR/WCHAR keep their tag, foreign tags are refused
// @verif fns=harness::coerce::{coerce_value_to_type,coerce_real,coerce_char}
// @verif bound=every payload of the source types DINT, LINT, ULINT, REAL, LREAL, CHAR, WCHAR, BOOL
#[kani::proof]
fn c03_init_coercion_real_char() {
    let k: u8 = kani::any();
    match k % 10 {
        0 => { let x: i32 = kani::any(); tag_case!(REAL, Value::DInt(x), |r| matches!(&r, Ok(Value::Real(y)) if (x.unsigned_abs() > (1 << 24)) || *y == x as f32)) }
        1 => { let x: i64 = kani::any(); tag_case!(LREAL, Value::LInt(x), |r| matches!(&r, Ok(Value::LReal(y)) if (x.unsigned_abs() > (1u64 << 53)) || *y == x as f64)) }
        2 => { let x: u64 = kani::any(); tag_case!(LREAL, Value::ULInt(x), |r| matches!(&r, Ok(Value::LReal(_)))) }
        3 => { let b: u32 = kani::any(); tag_case!(LREAL, Value::Real(f32::from_bits(b)), |r| matches!(&r, Ok(Value::LReal(y)) if y.to_bits() == (f32::from_bits(b) as f64).to_bits())) }
        4 => { let b: u64 = kani::any(); tag_case!(REAL, Value::LReal(f64::from_bits(b)), |r| matches!(&r, Ok(Value::Real(_)))) }
        5 => { let b: u32 = kani::any(); tag_case!(REAL, Value::Real(f32::from_bits(b)), |r| matches!(&r, Ok(Value::Real(y)) if y.to_bits() == b || f32::from_bits(b).is_nan())) }
        6 => { let c: u8 = kani::any(); tag_case!(CHAR, Value::Char(c), |r| matches!(&r, Ok(Value::Char(y)) if *y == c)) }
        7 => { let c: u16 = kani::any(); tag_case!(WCHAR, Value::WChar(c), |r| matches!(&r, Ok(Value::WChar(y)) if *y == c)) }
        8 => { let x: bool = kani::any(); tag_case!(REAL, Value::Bool(x), |r| r.is_err()) }
        _ => { let x: i32 = kani::any(); tag_case!(CHAR, Value::DInt(x), |r| r.is_err()) }
    }
    kani::cover!(k % 10 == 0);
    kani::cover!(k % 10 == 9);
}
