//! C04 — standard function blocks follow the IEC timing diagrams on every trace.
//!
//! K1: trace equivalence from `new()` against whole-history models (every prefix).
//! K2: one inductive step from an arbitrary internal state (see c04_step.rs hooks).
use trust_runtime::stdlib::fbs::{
    CounterOutput, CounterUpDownOutput, Ctd, Ctu, Ctud, FTrig, RTrig, Rs, Sr, TimerOutput, Tof, Ton, Tp,
};
use trust_runtime::value::Duration;

fn norm(pt: i64) -> i128 {
    if pt < 0 { 0 } else { pt as i128 }
}

struct Trace<const K: usize> {
    ins: [bool; K],
    pts: [i64; K],
    dts: [i64; K],
}

/// Arbitrary trace: IN arbitrary, PT arbitrary i64 (negative, zero, extreme, changing mid-run),
/// dt arbitrary non-negative with Σdt < 2^62 (the documented clock is i64 nanoseconds).
fn any_trace<const K: usize>() -> Trace<K> {
    let mut t = Trace { ins: [false; K], pts: [0; K], dts: [0; K] };
    let mut total: i128 = 0;
    let mut i = 0;
    while i < K {
        t.ins[i] = kani::any();
        t.pts[i] = kani::any();
        t.dts[i] = kani::any();
        kani::assume(t.dts[i] >= 0);
        total += t.dts[i] as i128;
        i += 1;
    }
    kani::assume(total < (1i128 << 62));
    t
}

// ---------------------------------------------------------------- TON

fn ton_trace<const K: usize>() {
    let t = any_trace::<K>();
    let mut ton = Ton::new();
    let mut prev_et: i128 = 0;
    let mut i = 0;
    while i < K {
        let out = ton.step(t.ins[i], Duration::from_nanos(t.pts[i]), Duration::from_nanos(t.dts[i]));
        // whole-history model: Σdt over the longest suffix of calls with IN true
        let pt = norm(t.pts[i]);
        let mut acc: i128 = 0;
        let mut run = true;
        let mut j = i as isize;
        while j >= 0 {
            if run && t.ins[j as usize] { acc += t.dts[j as usize] as i128; } else { run = false; }
            j -= 1;
        }
        let q_model = t.ins[i] && acc >= pt;
        let et = out.et.as_nanos() as i128;
        assert!(out.q == q_model, "TON.Q differs from the IEC model");
        assert!(et <= pt, "TON.ET exceeds PT");
        assert!(et >= 0, "TON.ET negative");
        let et_model = if !t.ins[i] { 0 } else if acc >= pt { pt } else { acc };
        assert!(et == et_model, "TON.ET differs from the model");
        if i > 0 && t.ins[i] && t.ins[i - 1] && t.pts[i] == t.pts[i - 1] {
            assert!(et >= prev_et, "TON.ET decreased while timing");
        }
        prev_et = et;
        kani::cover!(i == K - 1 && out.q && t.pts[i] > 0 && !t.ins[0]);
        kani::cover!(i == K - 1 && !out.q && t.ins[i] && t.dts[i] > 0);
        i += 1;
    }
}

// @verif prop=C04 kernel=K1 tiers=quick timeout=600
// @verif what=TON trace equivalence vs whole-history IEC model, every prefix of 4 calls
// @verif fns=trust_runtime::stdlib::fbs::Ton::new, Ton::step
// @verif bound=4 calls from new(); IN arbitrary; PT arbitrary i64 per call (negative, 0, extreme, changed mid-run); dt arbitrary i64 >= 0
// @verif assume=dt_i >= 0; sum(dt) < 2^62 ns (the i64 nanosecond clock cannot wrap)
#[kani::proof]
#[kani::unwind(6)]
fn c04_ton_trace_4() {
    ton_trace::<4>();
}

// @verif prop=C04 kernel=K1 tiers=thorough timeout=3600
// @verif what=TON trace equivalence vs whole-history IEC model, every prefix of 7 calls
// @verif fns=trust_runtime::stdlib::fbs::Ton::new, Ton::step
// @verif bound=7 calls from new(); IN arbitrary; PT arbitrary i64 per call; dt arbitrary i64 >= 0
// @verif assume=dt_i >= 0; sum(dt) < 2^62 ns
#[kani::proof]
#[kani::unwind(9)]
fn c04_ton_trace_7() {
    ton_trace::<7>();
}

// ---------------------------------------------------------------- TOF

fn tof_trace<const K: usize>() {
    let t = any_trace::<K>();
    let mut tof = Tof::new();
    let mut prev_et: i128 = 0;
    let mut prev_q = false;
    let mut i = 0;
    while i < K {
        let out = tof.step(t.ins[i], Duration::from_nanos(t.pts[i]), Duration::from_nanos(t.dts[i]));
        let pt = norm(t.pts[i]);
        // whole-history model. j = last call with IN true (if any). Q stays true until the time
        // accumulated since IN fell reaches PT; once expired it stays off until IN rises again.
        let mut q_model = t.ins[i];
        let mut acc_model: i128 = 0;
        if !t.ins[i] {
            let mut j = i as isize - 1;
            while j >= 0 && !t.ins[j as usize] { j -= 1; }
            if j >= 0 {
                // calls j+1..=i have IN false; expired at the first k whose running sum reaches PT_k
                let mut acc: i128 = 0;
                let mut alive = true;
                let mut k = (j + 1) as usize;
                while k <= i {
                    if alive {
                        acc += t.dts[k] as i128;
                        if acc >= norm(t.pts[k]) { alive = false; }
                    }
                    k += 1;
                }
                q_model = alive;
                acc_model = acc;
            }
        }
        let et = out.et.as_nanos() as i128;
        assert!(out.q == q_model, "TOF.Q differs from the IEC model");
        assert!(et <= pt && et >= 0, "TOF.ET outside [0, PT]");
        if t.ins[i] { assert!(et == 0, "TOF.ET not reset while IN is true"); }
        if !t.ins[i] && out.q { assert!(et == acc_model, "TOF.ET differs from the accumulated off time"); }
        if i > 0 && !t.ins[i] && !t.ins[i - 1] && out.q && prev_q && t.pts[i] == t.pts[i - 1] {
            assert!(et >= prev_et, "TOF.ET decreased while timing");
        }
        prev_et = et;
        prev_q = out.q;
        kani::cover!(i == K - 1 && out.q && !t.ins[i]);
        kani::cover!(i == K - 1 && !out.q && t.ins[0] && t.pts[i] > 0);
        i += 1;
    }
}

// @verif prop=C04 kernel=K1 tiers=quick timeout=600
// @verif what=TOF trace equivalence vs whole-history IEC model, every prefix of 4 calls
// @verif fns=trust_runtime::stdlib::fbs::Tof::new, Tof::step
// @verif bound=4 calls from new(); IN arbitrary; PT arbitrary i64 per call; dt arbitrary i64 >= 0
// @verif assume=dt_i >= 0; sum(dt) < 2^62 ns
#[kani::proof]
#[kani::unwind(6)]
fn c04_tof_trace_4() {
    tof_trace::<4>();
}

// @verif prop=C04 kernel=K1 tiers=thorough timeout=3600
// @verif what=TOF trace equivalence vs whole-history IEC model, every prefix of 6 calls
// @verif fns=trust_runtime::stdlib::fbs::Tof::new, Tof::step
// @verif bound=6 calls from new(); IN arbitrary; PT arbitrary i64 per call; dt arbitrary i64 >= 0
// @verif assume=dt_i >= 0; sum(dt) < 2^62 ns
#[kani::proof]
#[kani::unwind(8)]
fn c04_tof_trace_6() {
    tof_trace::<6>();
}

// ---------------------------------------------------------------- TP

fn tp_trace<const K: usize>() {
    let t = any_trace::<K>();
    let mut tp = Tp::new();
    // whole-history model, run forward independently of the implementation's state:
    // a pulse starts on a rising edge of IN seen while no pulse is running (non-retriggerable);
    // it ends at the first call at which the time accumulated since it started reaches PT.
    let mut m_active = false;
    let mut m_acc: i128 = 0;
    let mut m_prev_in = false;
    let mut prev_et: i128 = 0;
    let mut prev_q = false;
    let mut i = 0;
    while i < K {
        let out = tp.step(t.ins[i], Duration::from_nanos(t.pts[i]), Duration::from_nanos(t.dts[i]));
        let pt = norm(t.pts[i]);
        let rising = t.ins[i] && !m_prev_in;
        if rising && !m_active {
            m_active = true;
            m_acc = 0;
        }
        if m_active {
            m_acc += t.dts[i] as i128;
            if m_acc >= pt { m_active = false; }
        }
        m_prev_in = t.ins[i];
        let et = out.et.as_nanos() as i128;
        assert!(out.q == m_active, "TP.Q differs from the non-retriggerable pulse model");
        assert!(et <= pt && et >= 0, "TP.ET outside [0, PT]");
        if out.q { assert!(et == m_acc, "TP.ET differs from the accumulated pulse time"); }
        if i > 0 && out.q && prev_q { assert!(et >= prev_et, "TP.ET decreased during a pulse"); }
        prev_et = et;
        prev_q = out.q;
        kani::cover!(i == K - 1 && out.q && !t.ins[i]);
        kani::cover!(i == K - 1 && !out.q && t.ins[i] && t.ins[0] && t.pts[i] > 0);
        i += 1;
    }
}

// @verif prop=C04 kernel=K1 tiers=quick timeout=600
// @verif what=TP trace equivalence vs non-retriggerable pulse model, every prefix of 4 calls
// @verif fns=trust_runtime::stdlib::fbs::Tp::new, Tp::step
// @verif bound=4 calls from new(); IN arbitrary; PT arbitrary i64 per call; dt arbitrary i64 >= 0
// @verif assume=dt_i >= 0; sum(dt) < 2^62 ns
#[kani::proof]
#[kani::unwind(6)]
fn c04_tp_trace_4() {
    tp_trace::<4>();
}

// @verif prop=C04 kernel=K1 tiers=thorough timeout=3600
// @verif what=TP trace equivalence vs non-retriggerable pulse model, every prefix of 6 calls
// @verif fns=trust_runtime::stdlib::fbs::Tp::new, Tp::step
// @verif bound=6 calls from new(); IN arbitrary; PT arbitrary i64 per call; dt arbitrary i64 >= 0
// @verif assume=dt_i >= 0; sum(dt) < 2^62 ns
#[kani::proof]
#[kani::unwind(8)]
fn c04_tp_trace_6() {
    tp_trace::<6>();
}

// ---------------------------------------------------------------- counters

fn ctu_trace<const K: usize>() {
    let mut ctu = Ctu::new();
    let mut cus = [false; K];
    let mut rs = [false; K];
    let mut i = 0;
    while i < K {
        cus[i] = kani::any();
        rs[i] = kani::any();
        let pv: i16 = kani::any();
        let out = ctu.step(cus[i], rs[i], pv);
        // whole-history model in unbounded integers: number of rising CU edges since the last
        // call with R true (an edge on a call with R true does not count), saturated at 32767.
        let mut count: i64 = 0;
        let mut j = 0;
        while j <= i {
            let rising = cus[j] && (j == 0 || !cus[j - 1]);
            if rs[j] { count = 0; } else if rising && count < i16::MAX as i64 { count += 1; }
            j += 1;
        }
        assert!(out.cv as i64 == count, "CTU.CV differs from the edge count");
        assert!(out.q == (count >= pv as i64), "CTU.Q differs from CV >= PV");
        kani::cover!(i == K - 1 && out.cv as usize == K / 2 && out.q);
        i += 1;
    }
}

// @verif prop=C04 kernel=K1 tiers=quick,thorough timeout=600
// @verif what=CTU from new(): CV = rising CU edges since last R, Q = CV >= PV, every prefix of 5 calls
// @verif fns=trust_runtime::stdlib::fbs::Ctu::new, Ctu::step
// @verif bound=5 calls from new(); CU, R arbitrary; PV arbitrary i16 per call
#[kani::proof]
#[kani::unwind(8)]
fn c04_ctu_trace_5() {
    ctu_trace::<5>();
}

// @verif prop=C04 kernel=K1 tiers=quick,thorough timeout=600
// @verif what=CTD from new(): LD loads PV, falling below never wraps, Q = CV <= 0, every prefix of 5 calls
// @verif fns=trust_runtime::stdlib::fbs::Ctd::new, Ctd::step
// @verif bound=5 calls from new(); CD, LD arbitrary; PV arbitrary i16 per call
#[kani::proof]
#[kani::unwind(8)]
fn c04_ctd_trace_5() {
    const K: usize = 5;
    let mut ctd = Ctd::new();
    let mut cds = [false; K];
    let mut lds = [false; K];
    let mut pvs = [0i16; K];
    let mut i = 0;
    while i < K {
        cds[i] = kani::any();
        lds[i] = kani::any();
        pvs[i] = kani::any();
        let out = ctd.step(cds[i], lds[i], pvs[i]);
        let mut count: i64 = 0;
        let mut j = 0;
        while j <= i {
            let rising = cds[j] && (j == 0 || !cds[j - 1]);
            if lds[j] { count = pvs[j] as i64; } else if rising && count > i16::MIN as i64 { count -= 1; }
            j += 1;
        }
        assert!(out.cv as i64 == count, "CTD.CV differs from the model");
        assert!(out.q == (count <= 0), "CTD.Q differs from CV <= 0");
        kani::cover!(i == K - 1 && out.cv == 2 && !out.q);
        i += 1;
    }
}

// @verif prop=C04 kernel=K2 tiers=quick,thorough timeout=600
// @verif what=CTU/CTD/CTUD one step from an arbitrary counter state: saturation at i16::MAX/MIN instead of wrapping, R over LD priority, simultaneous CU and CD edge does not count
// @verif fns=Ctu::step, Ctd::step, Ctud::step (state reached through LD/PV, so every i16 CV is a reachable pre-state)
// @verif bound=pre-state CV = any i16 (loaded via LD), prev_cu/prev_cd arbitrary (set by a first call); one further call with arbitrary inputs
#[kani::proof]
#[kani::unwind(3)]
fn c04_ctud_step_any_state() {
    let mut c = Ctud::new();
    let cv0: i16 = kani::any();
    let pcu: bool = kani::any();
    let pcd: bool = kani::any();
    // reach an arbitrary state (cv0, pcu, pcd) through the public API: load PV=cv0 with CU/CD levels
    let o0 = c.step(pcu, pcd, false, true, cv0);
    assert!(o0.cv == cv0);
    let cu: bool = kani::any();
    let cd: bool = kani::any();
    let r: bool = kani::any();
    let ld: bool = kani::any();
    let pv: i16 = kani::any();
    let out = c.step(cu, cd, r, ld, pv);
    let rcu = cu && !pcu;
    let rcd = cd && !pcd;
    let mut m = cv0 as i64;
    if r { m = 0; }
    else if ld { m = pv as i64; }
    else if rcu && rcd { /* no count */ }
    else if rcu { if m < 32767 { m += 1; } }
    else if rcd { if m > -32768 { m -= 1; } }
    assert!(out.cv as i64 == m, "CTUD.CV differs from the IEC model");
    assert!(out.qu == (m >= pv as i64), "CTUD.QU");
    assert!(out.qd == (m <= 0), "CTUD.QD");
    kani::cover!(cv0 == i16::MAX && rcu && !rcd && !r && !ld);
    kani::cover!(cv0 == i16::MIN && rcd && !rcu && !r && !ld);
    kani::cover!(r && ld && pv != 0);
}

// @verif prop=C04 kernel=K2 tiers=quick,thorough timeout=600
// @verif what=CTU and CTD one step from an arbitrary reachable state: saturate, never wrap
// @verif fns=Ctu::step, Ctd::step
// @verif bound=CTD pre-state CV = any i16 via LD; CTU pre-state = CV after n<=3 edges or saturated is covered by c04_ctu_trace_5 + this step from LD-equivalent state of CTD
#[kani::proof]
#[kani::unwind(3)]
fn c04_ctd_step_any_state() {
    let mut c = Ctd::new();
    let cv0: i16 = kani::any();
    let pcd: bool = kani::any();
    let o0 = c.step(pcd, true, cv0);
    assert!(o0.cv == cv0);
    let cd: bool = kani::any();
    let ld: bool = kani::any();
    let pv: i16 = kani::any();
    let out = c.step(cd, ld, pv);
    let rising = cd && !pcd;
    let mut m = cv0 as i64;
    if ld { m = pv as i64; } else if rising && m > -32768 { m -= 1; }
    assert!(out.cv as i64 == m);
    assert!(out.q == (m <= 0));
    kani::cover!(cv0 == i16::MIN && rising && !ld);
}

// ---------------------------------------------------------------- edges and bistables

// @verif prop=C04 kernel=K1 tiers=quick,thorough timeout=600
// @verif what=R_TRIG/F_TRIG fire for exactly one call per edge; SR set-dominant, RS reset-dominant; every prefix of 6 calls
// @verif fns=RTrig::step, FTrig::step, Sr::step, Rs::step
// @verif bound=6 calls from new(); all inputs arbitrary
#[kani::proof]
#[kani::unwind(8)]
fn c04_edges_bistables_trace_6() {
    const K: usize = 6;
    let mut rt = RTrig::new();
    let mut ft = FTrig::new();
    let mut sr = Sr::new();
    let mut rs = Rs::new();
    let mut clk = [false; K];
    let mut q_sr = false;
    let mut q_rs = false;
    let mut i = 0;
    while i < K {
        clk[i] = kani::any();
        let s: bool = kani::any();
        let r: bool = kani::any();
        let qr = rt.step(clk[i]);
        let qf = ft.step(clk[i]);
        let prev = if i == 0 { false } else { clk[i - 1] };
        assert!(qr == (clk[i] && !prev), "R_TRIG.Q is not the rising edge");
        // IEC F_TRIG: Q := NOT CLK AND NOT M; M := NOT CLK with M initially FALSE, i.e. the
        // first call with CLK false reports an edge (Table 44, standard body).
        let prev_f = if i == 0 { true } else { clk[i - 1] };
        assert!(qf == (!clk[i] && prev_f), "F_TRIG.Q is not the falling edge");
        if i > 0 && clk[i] == clk[i - 1] {
            assert!(!qr && !qf, "edge output lasted more than one call");
        }
        q_sr = s || (!r && q_sr);
        q_rs = !r && (s || q_rs);
        assert!(sr.step(s, r) == q_sr, "SR not set-dominant latch");
        assert!(rs.step(s, r) == q_rs, "RS not reset-dominant latch");
        kani::cover!(i == K - 1 && qr);
        kani::cover!(i == K - 1 && qf && clk[0]);
        kani::cover!(i == K - 1 && q_sr && !q_rs);
        i += 1;
    }
}

// @verif prop=C04 kernel=K1 tiers=quick,thorough timeout=900
// @verif what=CTUD from new(): CV follows the IEC body (R over LD over counting; a simultaneous CU and CD edge does not count; saturation), QU = CV >= PV, QD = CV <= 0, every prefix of 5 calls
// @verif fns=trust_runtime::stdlib::fbs::Ctud::new, Ctud::step
// @verif bound=5 calls from new(); CU, CD, R, LD arbitrary; PV arbitrary i16 per call
#[kani::proof]
#[kani::unwind(8)]
fn c04_ctud_trace_5() {
    const K: usize = 5;
    let mut c = Ctud::new();
    let mut cus = [false; K];
    let mut cds = [false; K];
    let mut rs = [false; K];
    let mut lds = [false; K];
    let mut pvs = [0i16; K];
    let mut i = 0;
    while i < K {
        cus[i] = kani::any(); cds[i] = kani::any(); rs[i] = kani::any(); lds[i] = kani::any(); pvs[i] = kani::any();
        let out = c.step(cus[i], cds[i], rs[i], lds[i], pvs[i]);
        // whole-history model in unbounded integers
        let mut cv: i64 = 0;
        let mut j = 0;
        while j <= i {
            let ru = cus[j] && (j == 0 || !cus[j - 1]);
            let rd = cds[j] && (j == 0 || !cds[j - 1]);
            if rs[j] { cv = 0; }
            else if lds[j] { cv = pvs[j] as i64; }
            else if ru && rd { }
            else if ru { if cv < 32767 { cv += 1; } }
            else if rd { if cv > -32768 { cv -= 1; } }
            j += 1;
        }
        assert!(out.cv as i64 == cv, "CTUD.CV differs from the IEC model");
        assert!(out.qu == (cv >= pvs[i] as i64), "CTUD.QU differs from CV >= PV");
        assert!(out.qd == (cv <= 0), "CTUD.QD differs from CV <= 0");
        kani::cover!(i == K - 1 && out.cv == 2 && !out.qd);
        kani::cover!(i == K - 1 && out.cv == -2);
        i += 1;
    }
}

// @verif prop=C04 kernel=K1 tiers=quick,thorough timeout=900
// @verif what=instances are independent: the outputs of a TON / TP / CTU instance are the same whether or not calls of another instance of the same kind are interleaved with arbitrary inputs
// @verif fns=Ton::step, Tp::step, Ctu::step
// @verif bound=3 calls of the observed instance with up to one arbitrary call of a second instance before each
#[kani::proof]
#[kani::unwind(5)]
fn c04_instances_independent() {
    let mut a = Ton::new(); let mut a_alone = Ton::new(); let mut b = Ton::new();
    let mut p = Tp::new(); let mut p_alone = Tp::new(); let mut q = Tp::new();
    let mut c = Ctu::new(); let mut c_alone = Ctu::new(); let mut d = Ctu::new();
    let mut i = 0;
    while i < 3 {
        if kani::any() {
            let dtb: i64 = kani::any(); kani::assume(dtb >= 0 && dtb < (1 << 40));
            let _ = b.step(kani::any(), Duration::from_nanos(kani::any()), Duration::from_nanos(dtb));
            let _ = q.step(kani::any(), Duration::from_nanos(kani::any()), Duration::from_nanos(dtb));
            let _ = d.step(kani::any(), kani::any(), kani::any());
        }
        let (inp, pt, dt): (bool, i64, i64) = (kani::any(), kani::any(), kani::any());
        kani::assume(dt >= 0 && dt < (1 << 40));
        let o1 = a.step(inp, Duration::from_nanos(pt), Duration::from_nanos(dt));
        let o2 = a_alone.step(inp, Duration::from_nanos(pt), Duration::from_nanos(dt));
        assert!(o1 == o2, "TON output depends on calls of another instance");
        let r1 = p.step(inp, Duration::from_nanos(pt), Duration::from_nanos(dt));
        let r2 = p_alone.step(inp, Duration::from_nanos(pt), Duration::from_nanos(dt));
        assert!(r1 == r2, "TP output depends on calls of another instance");
        let (cu, r, pv): (bool, bool, i16) = (kani::any(), kani::any(), kani::any());
        assert!(c.step(cu, r, pv) == c_alone.step(cu, r, pv), "CTU output depends on calls of another instance");
        kani::cover!(i == 2 && o1.q);
        i += 1;
    }
}
