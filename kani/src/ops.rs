//! Operator kernels shared by C01 (no panic / no static-class error on accepted operand types)
//! and C02 (differential against an independent IEC reference in mathematical integers).
//!
//! DESIGN Rule 1: every `Value` handed to the real code has a concrete tag per call site; the
//! operator is symbolic, the payloads are full-width symbolic.
use trust_runtime::error::RuntimeError;
use trust_runtime::eval::ops::{apply_binary, apply_unary, BinaryOp, UnaryOp};
use trust_runtime::value::{DateTimeProfile, Value};

include!("/verif/.work/generated/accept.rs");

pub fn op_from(k: u8) -> BinaryOp {
    match k {
        0 => BinaryOp::Add, 1 => BinaryOp::Sub, 2 => BinaryOp::Mul, 3 => BinaryOp::Div,
        4 => BinaryOp::Mod, 5 => BinaryOp::Pow, 6 => BinaryOp::And, 7 => BinaryOp::Or,
        8 => BinaryOp::Xor, 9 => BinaryOp::Eq, 10 => BinaryOp::Ne, 11 => BinaryOp::Lt,
        12 => BinaryOp::Le, 13 => BinaryOp::Gt, _ => BinaryOp::Ge,
    }
}

/// Static-class errors the checker should have excluded (property C01).
pub fn static_class(e: &RuntimeError) -> bool {
    matches!(
        e,
        RuntimeError::TypeMismatch
            | RuntimeError::UndefinedVariable(_)
            | RuntimeError::UndefinedFunction(_)
            | RuntimeError::UndefinedField(_)
            | RuntimeError::ConditionNotBool
            | RuntimeError::CaseSelectorType
            | RuntimeError::InvalidControlFlow
            | RuntimeError::InvalidArgumentCount { .. }
            | RuntimeError::InvalidArgumentName(_)
            | RuntimeError::UndefinedLabel(_)
    )
}

// ---- reference semantics for integer operands (docs/specs/05-expressions.md §6.1, IEC 61131-3)
// type index as in the generated table: 1=SINT 2=INT 3=DINT 4=LINT 5=USINT 6=UINT 7=UDINT 8=ULINT
pub fn int_range(t: usize) -> (i128, i128) {
    match t {
        1 => (i8::MIN as i128, i8::MAX as i128),
        2 => (i16::MIN as i128, i16::MAX as i128),
        3 => (i32::MIN as i128, i32::MAX as i128),
        4 => (i64::MIN as i128, i64::MAX as i128),
        5 => (0, u8::MAX as i128),
        6 => (0, u16::MAX as i128),
        7 => (0, u32::MAX as i128),
        _ => (0, u64::MAX as i128),
    }
}
pub fn is_signed(t: usize) -> bool { t >= 1 && t <= 4 }

#[derive(Clone, Copy, PartialEq, Eq)]
pub enum Ref {
    Int(usize, i128),
    Bool(bool),
    Overflow,
    DivZero,
    ModZero,
    /// the documents define no meaning (mixed signed/unsigned, negative integer exponent, logical op on integers)
    Undefined,
}

pub fn ref_int(op: u8, tl: usize, a: i128, tr: usize, b: i128) -> Ref {
    if is_signed(tl) != is_signed(tr) {
        return Ref::Undefined;
    }
    // "Widest INT type" of the two operands (same signedness chain)
    let t = if tl >= tr { tl } else { tr };
    let (lo, hi) = int_range(t);
    let exact: Option<i128> = match op {
        0 => Some(a + b),
        1 => Some(a - b),
        2 => a.checked_mul(b),
        3 => { if b == 0 { return Ref::DivZero; } Some(a / b) }
        4 => { if b == 0 { return Ref::ModZero; } Some(a % b) }
        5 => { if b < 0 { return Ref::Undefined; } a.checked_pow(b as u32) }
        6 | 7 | 8 => return Ref::Undefined,
        9 => return Ref::Bool(a == b),
        10 => return Ref::Bool(a != b),
        11 => return Ref::Bool(a < b),
        12 => return Ref::Bool(a <= b),
        13 => return Ref::Bool(a > b),
        _ => return Ref::Bool(a >= b),
    };
    match exact {
        Some(v) if v >= lo && v <= hi => Ref::Int(t, v),
        _ => Ref::Overflow,
    }
}

/// Decode a runtime integer result into (type index, mathematical value).
pub fn int_of(v: &Value) -> Option<(usize, i128)> {
    match v {
        Value::SInt(x) => Some((1, *x as i128)),
        Value::Int(x) => Some((2, *x as i128)),
        Value::DInt(x) => Some((3, *x as i128)),
        Value::LInt(x) => Some((4, *x as i128)),
        Value::USInt(x) => Some((5, *x as i128)),
        Value::UInt(x) => Some((6, *x as i128)),
        Value::UDInt(x) => Some((7, *x as i128)),
        Value::ULInt(x) => Some((8, *x as i128)),
        _ => None,
    }
}

/// |v| <= 8 or within 2 of either end of the type's range.
pub fn small_or_extreme(v: i128, t: usize) -> bool {
    let (lo, hi) = int_range(t);
    (v >= -8 && v <= 8) || v <= lo + 2 || v >= hi - 2
}

/// All C01/C02 obligations for one integer x integer application (result inspected by reference).
pub fn check_int(k: u8, tl: usize, a: i128, tr: usize, b: i128, r: &Result<Value, RuntimeError>) {
    let m = ref_int(k, tl, a, tr, b);
    let accepted = ACCEPT_BIN[k as usize][tl][tr];
    // ---- C01: an accepted operand-type triple never yields a static-class error
    #[cfg(feature = "c01")]
    if accepted {
        if let Err(e) = r {
            if static_class(e) {
                if is_signed(tl) != is_signed(tr) && (a < 0 || b < 0) {
                    assert!(false, "C01: KF-mixed-sign: negative signed operand combined with an unsigned operand yields TypeMismatch");
                } else if k == 5 && b < 0 {
                    assert!(false, "C01: KF-pow-negative-exponent: integer ** negative integer yields TypeMismatch");
                } else {
                    assert!(false, "C01: static-class error on operand types the checker accepts");
                }
            }
        }
    }
    // ---- C02: value, type and fault agree with the reference
    #[cfg(feature = "c02")]
    match m {
        Ref::Undefined => {}
        Ref::Int(t, v) => match r {
            Ok(val) => {
                let got = int_of(val);
                assert!(got.is_some(), "C02: integer operation produced a non-integer value");
                let (gt, gv) = got.unwrap();
                assert!(gt == t, "C02: result type differs from the widest operand type");
                assert!(gv == v, "C02: result value differs from exact integer arithmetic");
            }
            Err(_) => assert!(false, "C02: fault raised where the reference computes a value"),
        },
        Ref::Bool(bv) => match r {
            Ok(Value::Bool(g)) => assert!(*g == bv, "C02: comparison result differs from the reference"),
            _ => assert!(false, "C02: comparison did not produce a BOOL"),
        },
        Ref::Overflow => assert!(matches!(r, Err(RuntimeError::Overflow)), "C02: missing or wrong fault where the reference overflows"),
        Ref::DivZero => assert!(matches!(r, Err(RuntimeError::DivisionByZero)), "C02: division by zero not reported"),
        Ref::ModZero => assert!(matches!(r, Err(RuntimeError::ModuloByZero)), "C02: modulo by zero not reported"),
    }
    kani::cover!(matches!(m, Ref::Int(_, _)) || matches!(m, Ref::Bool(true)));
    kani::cover!(matches!(m, Ref::Overflow) || matches!(m, Ref::Bool(false)) || matches!(m, Ref::DivZero) || k == 5);
}

/// One real call with a CONCRETE operator (DESIGN: a symbolic operator costs the sum of all arms).
macro_rules! call_int {
    ($op:ident, $k:expr, $lv:ident, $li:expr, $a:expr, $rv:ident, $ri:expr, $b:expr) => {{
        let profile = DateTimeProfile::default();
        let r = apply_binary(BinaryOp::$op, Value::$lv($a), Value::$rv($b), &profile);
        check_int($k, $li, $a as i128, $ri, $b as i128, &r);
        std::mem::forget(r);
    }};
}

macro_rules! int_addsub {
    ($name:ident, $lv:ident, $lt:ty, $li:expr, $rv:ident, $rt:ty, $ri:expr) => {
        #[kani::proof]
        fn $name() {
            let a: $lt = kani::any();
            let b: $rt = kani::any();
            if kani::any() { call_int!(Add, 0, $lv, $li, a, $rv, $ri, b); } else { call_int!(Sub, 1, $lv, $li, a, $rv, $ri, b); }
        }
    };
}
macro_rules! int_cmp {
    ($name:ident, $lv:ident, $lt:ty, $li:expr, $rv:ident, $rt:ty, $ri:expr) => {
        #[kani::proof]
        fn $name() {
            let a: $lt = kani::any();
            let b: $rt = kani::any();
            let k: u8 = kani::any();
            match k {
                9 => call_int!(Eq, 9, $lv, $li, a, $rv, $ri, b),
                10 => call_int!(Ne, 10, $lv, $li, a, $rv, $ri, b),
                11 => call_int!(Lt, 11, $lv, $li, a, $rv, $ri, b),
                12 => call_int!(Le, 12, $lv, $li, a, $rv, $ri, b),
                13 => call_int!(Gt, 13, $lv, $li, a, $rv, $ri, b),
                _ => call_int!(Ge, 14, $lv, $li, a, $rv, $ri, b),
            }
        }
    };
}
macro_rules! int_mul {
    ($name:ident, $lv:ident, $lt:ty, $li:expr, $rv:ident, $rt:ty, $ri:expr) => {
        #[kani::proof]
        fn $name() {
            let a: $lt = kani::any();
            let b: $rt = kani::any();
            // stated bound: one operand full width, the other small (|v|<=8) or within 2 of a range end
            kani::assume(small_or_extreme(a as i128, $li) || small_or_extreme(b as i128, $ri));
            call_int!(Mul, 2, $lv, $li, a, $rv, $ri, b);
        }
    };
}
macro_rules! int_divmod64 {
    ($name:ident, $lv:ident, $lt:ty, $li:expr, $rv:ident, $rt:ty, $ri:expr) => {
        #[kani::proof]
        fn $name() {
            let a: $lt = kani::any();
            let b: $rt = kani::any();
            // 32/64-bit operands: symbolic 128-bit division by a full-width divisor does not finish (probed: >450 s for DINT); divisor restricted
            kani::assume(small_or_extreme(b as i128, $ri));
            if kani::any() { call_int!(Div, 3, $lv, $li, a, $rv, $ri, b); } else { call_int!(Mod, 4, $lv, $li, a, $rv, $ri, b); }
        }
    };
}
macro_rules! int_divmod32 {
    ($name:ident, $lv:ident, $lt:ty, $li:expr, $rv:ident, $rt:ty, $ri:expr) => {
        #[kani::proof]
        fn $name() {
            let a: $lt = kani::any();
            let b: $rt = kani::any();
            kani::assume(small_or_extreme(a as i128, $li) || small_or_extreme(b as i128, $ri));
            if kani::any() { call_int!(Div, 3, $lv, $li, a, $rv, $ri, b); } else { call_int!(Mod, 4, $lv, $li, a, $rv, $ri, b); }
        }
    };
}
macro_rules! int_pow {
    ($name:ident, $lv:ident, $lt:ty, $li:expr, $rv:ident, $rt:ty, $ri:expr) => {
        #[kani::proof]
        fn $name() {
            let a: $lt = kani::any();
            let b: $rt = kani::any();
            // stated bound: base small or extreme, exponent in [-1, 4]
            kani::assume(small_or_extreme(a as i128, $li));
            kani::assume((b as i128) >= -1 && (b as i128) <= 4);
            call_int!(Pow, 5, $lv, $li, a, $rv, $ri, b);
        }
    };
}

include!("ops_list.rs");

// =====================================================================================
// Unary operators
// =====================================================================================

/// C01 obligation for a unary application on an operand type the checker accepts.
pub fn check_unary_class(oi: usize, ti: usize, unsigned_operand: bool, r: &Result<Value, RuntimeError>) {
    #[cfg(feature = "c01")]
    if ACCEPT_UN[oi][ti] {
        if let Err(e) = r {
            if static_class(e) {
                if oi == 0 && unsigned_operand {
                    assert!(false, "C01: KF-neg-unsigned: unary minus on an unsigned operand is accepted by the checker and yields TypeMismatch");
                } else {
                    assert!(false, "C01: static-class error on a unary operand type the checker accepts");
                }
            }
        }
    }
}

macro_rules! neg_signed {
    ($v:ident, $t:ty, $ti:expr) => {{
        let x: $t = kani::any();
        let r = apply_unary(UnaryOp::Neg, Value::$v(x));
        check_unary_class(0, $ti, false, &r);
        #[cfg(feature = "c02")]
        {
            if x == <$t>::MIN {
                assert!(matches!(&r, Err(RuntimeError::Overflow)), "C02: -MIN must fault with Overflow");
            } else {
                assert!(matches!(&r, Ok(Value::$v(y)) if *y == -x), "C02: unary minus differs from exact negation");
            }
        }
        kani::cover!(x == <$t>::MIN);
        kani::cover!(x == 5);
        std::mem::forget(r);
    }};
}

// @verif prop=C01,C02 kernel=K1 tiers=quick,thorough timeout=900 unwind=1
// @verif what=unary minus on SINT/INT/DINT/LINT: never panics, -MIN faults with Overflow, otherwise exact negation with the operand's type
// @verif fns=eval::ops::apply_unary
// @verif bound=every payload of the four signed integer types
#[kani::proof]
fn ops_unary_neg_signed() {
    let k: u8 = kani::any();
    match k % 4 {
        0 => neg_signed!(SInt, i8, 1),
        1 => neg_signed!(Int, i16, 2),
        2 => neg_signed!(DInt, i32, 3),
        _ => neg_signed!(LInt, i64, 4),
    }
}

macro_rules! neg_unsigned {
    ($v:ident, $t:ty, $ti:expr) => {{
        let x: $t = kani::any();
        let r = apply_unary(UnaryOp::Neg, Value::$v(x));
        kani::cover!(x == 0);
        kani::cover!(x == 7);
        check_unary_class(0, $ti, true, &r);
        std::mem::forget(r);
    }};
}

// @verif prop=C01 kernel=K1 tiers=quick,thorough timeout=900 unwind=1
// @verif what=unary minus on USINT/UINT/UDINT/ULINT (accepted by the checker as "numeric"): no panic, no static-class error
// @verif fns=eval::ops::apply_unary
// @verif bound=every payload of the four unsigned integer types
#[kani::proof]
fn ops_unary_neg_unsigned() {
    let k: u8 = kani::any();
    match k % 4 {
        0 => neg_unsigned!(USInt, u8, 5),
        1 => neg_unsigned!(UInt, u16, 6),
        2 => neg_unsigned!(UDInt, u32, 7),
        _ => neg_unsigned!(ULInt, u64, 8),
    }
}

// @verif prop=C01,C02 kernel=K1 tiers=quick,thorough timeout=900 unwind=1
// @verif what=unary minus on REAL/LREAL flips exactly the sign bit; NOT on BOOL is logical negation; unary plus returns its operand
// @verif fns=eval::ops::apply_unary
// @verif bound=every bit pattern of REAL, LREAL; both BOOL values; unary plus on INT and LREAL
#[kani::proof]
fn ops_unary_real_bool_pos() {
    let k: u8 = kani::any();
    match k % 5 {
        0 => {
            let b: u32 = kani::any();
            let r = apply_unary(UnaryOp::Neg, Value::Real(f32::from_bits(b)));
            check_unary_class(0, 9, false, &r);
            #[cfg(feature = "c02")]
            assert!(matches!(&r, Ok(Value::Real(y)) if y.to_bits() == b ^ 0x8000_0000), "C02: REAL negation is not a sign flip");
            std::mem::forget(r);
        }
        1 => {
            let b: u64 = kani::any();
            let r = apply_unary(UnaryOp::Neg, Value::LReal(f64::from_bits(b)));
            check_unary_class(0, 10, false, &r);
            #[cfg(feature = "c02")]
            assert!(matches!(&r, Ok(Value::LReal(y)) if y.to_bits() == b ^ 0x8000_0000_0000_0000), "C02: LREAL negation is not a sign flip");
            std::mem::forget(r);
        }
        2 => {
            let x: bool = kani::any();
            let r = apply_unary(UnaryOp::Not, Value::Bool(x));
            check_unary_class(1, 0, false, &r);
            #[cfg(feature = "c02")]
            assert!(matches!(&r, Ok(Value::Bool(y)) if *y == !x), "C02: NOT on BOOL is not logical negation");
            std::mem::forget(r);
        }
        3 => {
            let x: i16 = kani::any();
            let r = apply_unary(UnaryOp::Pos, Value::Int(x));
            #[cfg(feature = "c02")]
            assert!(matches!(&r, Ok(Value::Int(y)) if *y == x), "C02: unary plus changed its operand");
            std::mem::forget(r);
        }
        _ => {
            let b: u64 = kani::any();
            let r = apply_unary(UnaryOp::Pos, Value::LReal(f64::from_bits(b)));
            #[cfg(feature = "c02")]
            assert!(matches!(&r, Ok(Value::LReal(y)) if y.to_bits() == b), "C02: unary plus changed its operand");
            std::mem::forget(r);
        }
    }
    kani::cover!(k % 5 == 0);
    kani::cover!(k % 5 == 2);
}

// =====================================================================================
// Comparisons and equality on the non-numeric elementary types (same type on both sides)
// =====================================================================================

pub fn check_cmp(k: u8, ti: usize, ord: core::cmp::Ordering, r: &Result<Value, RuntimeError>) {
    use core::cmp::Ordering::*;
    let expect = match k {
        9 => ord == Equal,
        10 => ord != Equal,
        11 => ord == Less,
        12 => ord != Greater,
        13 => ord == Greater,
        _ => ord != Less,
    };
    #[cfg(feature = "c01")]
    if ACCEPT_BIN[k as usize][ti][ti] {
        if let Err(e) = r {
            if static_class(e) {
                assert!(false, "C01: static-class error on a comparison the checker accepts");
            }
        }
    }
    #[cfg(feature = "c02")]
    if ACCEPT_BIN[k as usize][ti][ti] {
        assert!(matches!(r, Ok(Value::Bool(g)) if *g == expect), "C02: comparison result differs from the natural order of the type");
    }
    kani::cover!(expect);
    kani::cover!(!expect);
}

macro_rules! cmp_same {
    ($name:ident, $ti:expr, $t:ty, |$x:ident| $mk:expr) => {
        #[kani::proof]
        fn $name() {
            let a: $t = kani::any();
            let b: $t = kani::any();
            let ord = a.cmp(&b);
            let profile = DateTimeProfile::default();
            let k: u8 = kani::any();
            macro_rules! go { ($op:ident, $kk:expr) => {{
                let l = { let $x = a; $mk };
                let rr = { let $x = b; $mk };
                let r = apply_binary(BinaryOp::$op, l, rr, &profile);
                check_cmp($kk, $ti, ord, &r);
                std::mem::forget(r);
            }}; }
            match k {
                9 => go!(Eq, 9), 10 => go!(Ne, 10), 11 => go!(Lt, 11), 12 => go!(Le, 12), 13 => go!(Gt, 13), _ => go!(Ge, 14),
            }
        }
    };
}

use trust_runtime::value::{DateTimeValue, DateValue, Duration, LDateTimeValue, LDateValue, LTimeOfDayValue, TimeOfDayValue};

macro_rules! cmp_entry {
    ($name:ident, $tiers:expr, $ti:expr, $t:ty, |$x:ident| $mk:expr) => { cmp_same!($name, $ti, $t, |$x| $mk); };
}

// @verif prop=C01,C02 kernel=K1 tiers=quick,thorough timeout=900 unwind=1
// @verif what=apply_binary = <> < <= > >= on BOOL x BOOL vs natural order (FALSE < TRUE)
// @verif fns=eval::ops::{apply_binary,numeric_eq,non_numeric_cmp,ord_cmp}
// @verif bound=all operand values, six comparison operators (concrete per call site)
cmp_same!(ops_cmp_bool, 0, bool, |x| Value::Bool(x));
// @verif prop=C01,C02 kernel=K1 tiers=thorough timeout=900 unwind=1
// @verif what=apply_binary comparisons on BYTE x BYTE vs unsigned order
// @verif fns=eval::ops::{apply_binary,numeric_eq,non_numeric_cmp,ord_cmp}
// @verif bound=all operand values, six comparison operators
cmp_same!(ops_cmp_byte, 11, u8, |x| Value::Byte(x));
// @verif prop=C01,C02 kernel=K1 tiers=quick,thorough timeout=900 unwind=1
// @verif what=apply_binary comparisons on WORD x WORD vs unsigned order
// @verif fns=eval::ops::{apply_binary,numeric_eq,non_numeric_cmp,ord_cmp}
// @verif bound=all operand values, six comparison operators
cmp_same!(ops_cmp_word, 12, u16, |x| Value::Word(x));
// @verif prop=C01,C02 kernel=K1 tiers=thorough timeout=900 unwind=1
// @verif what=apply_binary comparisons on DWORD x DWORD vs unsigned order
// @verif fns=eval::ops::{apply_binary,numeric_eq,non_numeric_cmp,ord_cmp}
// @verif bound=all operand values, six comparison operators
cmp_same!(ops_cmp_dword, 13, u32, |x| Value::DWord(x));
// @verif prop=C01,C02 kernel=K1 tiers=thorough timeout=900 unwind=1
// @verif what=apply_binary comparisons on LWORD x LWORD vs unsigned order
// @verif fns=eval::ops::{apply_binary,numeric_eq,non_numeric_cmp,ord_cmp}
// @verif bound=all operand values, six comparison operators
cmp_same!(ops_cmp_lword, 14, u64, |x| Value::LWord(x));
// @verif prop=C01,C02 kernel=K1 tiers=quick,thorough timeout=900 unwind=1
// @verif what=apply_binary comparisons on TIME x TIME vs signed nanosecond order
// @verif fns=eval::ops::{apply_binary,time_cmp,time_cmp_values,numeric_eq}
// @verif bound=all i64 nanosecond payloads, six comparison operators
cmp_same!(ops_cmp_time, 15, i64, |x| Value::Time(Duration::from_nanos(x)));
// @verif prop=C01,C02 kernel=K1 tiers=thorough timeout=900 unwind=1
// @verif what=apply_binary comparisons on LTIME x LTIME
// @verif fns=eval::ops::{apply_binary,time_cmp,time_cmp_values,numeric_eq}
// @verif bound=all i64 payloads, six comparison operators
cmp_same!(ops_cmp_ltime, 16, i64, |x| Value::LTime(Duration::from_nanos(x)));
// @verif prop=C01,C02 kernel=K1 tiers=thorough timeout=900 unwind=1
// @verif what=apply_binary comparisons on DATE x DATE
// @verif fns=eval::ops::{apply_binary,time_cmp,time_cmp_values,numeric_eq}
// @verif bound=all i64 payloads, six comparison operators
cmp_same!(ops_cmp_date, 17, i64, |x| Value::Date(DateValue::new(x)));
// @verif prop=C01,C02 kernel=K1 tiers=thorough timeout=900 unwind=1
// @verif what=apply_binary comparisons on LDATE x LDATE
// @verif fns=eval::ops::{apply_binary,time_cmp,time_cmp_values,numeric_eq}
// @verif bound=all i64 payloads, six comparison operators
cmp_same!(ops_cmp_ldate, 18, i64, |x| Value::LDate(LDateValue::new(x)));
// @verif prop=C01,C02 kernel=K1 tiers=thorough timeout=900 unwind=1
// @verif what=apply_binary comparisons on TOD x TOD
// @verif fns=eval::ops::{apply_binary,time_cmp,time_cmp_values,numeric_eq}
// @verif bound=all i64 payloads, six comparison operators
cmp_same!(ops_cmp_tod, 19, i64, |x| Value::Tod(TimeOfDayValue::new(x)));
// @verif prop=C01,C02 kernel=K1 tiers=thorough timeout=900 unwind=1
// @verif what=apply_binary comparisons on LTOD x LTOD
// @verif fns=eval::ops::{apply_binary,time_cmp,time_cmp_values,numeric_eq}
// @verif bound=all i64 payloads, six comparison operators
cmp_same!(ops_cmp_ltod, 20, i64, |x| Value::LTod(LTimeOfDayValue::new(x)));
// @verif prop=C01,C02 kernel=K1 tiers=quick,thorough timeout=900 unwind=1
// @verif what=apply_binary comparisons on DT x DT
// @verif fns=eval::ops::{apply_binary,time_cmp,time_cmp_values,numeric_eq}
// @verif bound=all i64 payloads, six comparison operators
cmp_same!(ops_cmp_dt, 21, i64, |x| Value::Dt(DateTimeValue::new(x)));
// @verif prop=C01,C02 kernel=K1 tiers=thorough timeout=900 unwind=1
// @verif what=apply_binary comparisons on LDT x LDT
// @verif fns=eval::ops::{apply_binary,time_cmp,time_cmp_values,numeric_eq}
// @verif bound=all i64 payloads, six comparison operators
cmp_same!(ops_cmp_ldt, 22, i64, |x| Value::Ldt(LDateTimeValue::new(x)));
// @verif prop=C01,C02 kernel=K1 tiers=quick,thorough timeout=900 unwind=1
// @verif what=apply_binary comparisons on CHAR x CHAR
// @verif fns=eval::ops::{apply_binary,numeric_eq,non_numeric_cmp,ord_cmp}
// @verif bound=all u8 payloads, six comparison operators
cmp_same!(ops_cmp_char, 25, u8, |x| Value::Char(x));
// @verif prop=C01,C02 kernel=K1 tiers=thorough timeout=900 unwind=1
// @verif what=apply_binary comparisons on WCHAR x WCHAR
// @verif fns=eval::ops::{apply_binary,numeric_eq,non_numeric_cmp,ord_cmp}
// @verif bound=all u16 payloads, six comparison operators
cmp_same!(ops_cmp_wchar, 26, u16, |x| Value::WChar(x));

// @verif prop=C01,C02 kernel=K1 tiers=quick,thorough timeout=900 unwind=1
// @verif what=AND OR XOR on BOOL x BOOL equal the truth tables
// @verif fns=eval::ops::{apply_binary,logical_or_bitwise}
// @verif bound=all four operand combinations, three operators
#[kani::proof]
fn ops_logic_bool() {
    let a: bool = kani::any();
    let b: bool = kani::any();
    let profile = DateTimeProfile::default();
    let k: u8 = kani::any();
    macro_rules! go { ($op:ident, $kk:expr, $e:expr) => {{
        let r = apply_binary(BinaryOp::$op, Value::Bool(a), Value::Bool(b), &profile);
        #[cfg(feature = "c01")]
        if ACCEPT_BIN[$kk][0][0] { if let Err(e) = &r { assert!(!static_class(e), "C01: static-class error on BOOL logic the checker accepts"); } }
        #[cfg(feature = "c02")]
        assert!(matches!(&r, Ok(Value::Bool(g)) if *g == $e), "C02: BOOL logic differs from the truth table");
        std::mem::forget(r);
    }}; }
    match k % 3 { 0 => go!(And, 6, a && b), 1 => go!(Or, 7, a || b), _ => go!(Xor, 8, a != b) }
    kani::cover!(a && !b && k % 3 == 2);
    kani::cover!(k % 3 == 0);
}

// =====================================================================================
// REAL / LREAL operands. Reference: compute in f64, round once to the target type, fault with
// Overflow when the result is not finite IN THE TARGET TYPE, DivisionByZero on a zero divisor.
// Only + - and the comparisons are in the claim (float * / ** are outside, DESIGN C02).
// =====================================================================================

/// ti: 9 = REAL target, 10 = LREAL target
pub fn check_real(k: u8, tl: usize, tr: usize, a: f64, b: f64, r: &Result<Value, RuntimeError>) {
    let target_lreal = tl == 10 || tr == 10;
    #[cfg(feature = "c01")]
    if ACCEPT_BIN[k as usize][tl][tr] {
        if let Err(e) = r {
            if static_class(e) {
                if k == 4 {
                    assert!(false, "C01: KF-real-mod: MOD on REAL/LREAL operands is accepted by the checker and yields TypeMismatch");
                } else {
                    assert!(false, "C01: static-class error on real operands the checker accepts");
                }
            }
        }
    }
    #[cfg(feature = "c02")]
    {
        if k == 0 || k == 1 {
            let exact = if k == 0 { a + b } else { a - b };
            if target_lreal {
                if exact.is_finite() {
                    assert!(matches!(r, Ok(Value::LReal(g)) if g.to_bits() == exact.to_bits()), "C02: LREAL +/- differs from IEEE double arithmetic");
                } else {
                    assert!(matches!(r, Err(RuntimeError::Overflow)), "C02: non-finite LREAL result must fault with Overflow");
                }
            } else {
                let narrowed = exact as f32;
                if narrowed.is_finite() {
                    assert!(matches!(r, Ok(Value::Real(g)) if g.to_bits() == narrowed.to_bits()), "C02: REAL +/- differs from correctly rounded single arithmetic");
                } else {
                    assert!(matches!(r, Err(RuntimeError::Overflow)), "C02: REAL result that is not finite in REAL must fault with Overflow");
                }
            }
        } else if k >= 9 {
            let expect = match k { 9 => a == b, 10 => a != b, 11 => a < b, 12 => a <= b, 13 => a > b, _ => a >= b };
            assert!(matches!(r, Ok(Value::Bool(g)) if *g == expect), "C02: real comparison differs from IEEE comparison");
        }
    }
}

macro_rules! real_pair {
    ($name:ident, $li:expr, $lb:ty, |$xl:ident| $mkl:expr, |$fl:ident| $tol:expr, $ri:expr, $rb:ty, |$xr:ident| $mkr:expr, |$fr:ident| $tor:expr) => {
        #[kani::proof]
        fn $name() {
            let ab: $lb = kani::any();
            let bb: $rb = kani::any();
            let af: f64 = { let $fl = ab; $tol };
            let bf: f64 = { let $fr = bb; $tor };
            let profile = DateTimeProfile::default();
            let k: u8 = kani::any();
            macro_rules! go { ($op:ident, $kk:expr) => {{
                let l = { let $xl = ab; $mkl };
                let rr = { let $xr = bb; $mkr };
                let r = apply_binary(BinaryOp::$op, l, rr, &profile);
                check_real($kk, $li, $ri, af, bf, &r);
                std::mem::forget(r);
            }}; }
            match k {
                0 => go!(Add, 0), 1 => go!(Sub, 1), 4 => go!(Mod, 4),
                9 => go!(Eq, 9), 10 => go!(Ne, 10), 11 => go!(Lt, 11), 12 => go!(Le, 12), 13 => go!(Gt, 13), _ => go!(Ge, 14),
            }
            kani::cover!(k == 0 && af.is_finite() && bf.is_finite() && af + bf > 3.0e38);
            kani::cover!(k == 11 && af < bf);
        }
    };
}

// @verif prop=C01,C02 kernel=K1 tiers=quick,thorough timeout=1500 unwind=1
// @verif what=apply_binary REAL x REAL: + - (correctly rounded single result, Overflow when not finite in REAL), MOD (class only), six comparisons (IEEE, NaN unordered)
// @verif fns=eval::ops::{apply_binary,numeric_arith,numeric_cmp,numeric_eq}, numeric::to_f64
// @verif bound=every pair of f32 bit patterns incl. NaN, infinities, subnormals; operator concrete per call site
real_pair!(ops_real_real, 9, u32, |x| Value::Real(f32::from_bits(x)), |x| f32::from_bits(x) as f64, 9, u32, |x| Value::Real(f32::from_bits(x)), |x| f32::from_bits(x) as f64);

// @verif prop=C01,C02 kernel=K1 tiers=quick,thorough timeout=1500 unwind=1
// @verif what=apply_binary LREAL x LREAL: + - (IEEE double, Overflow when not finite), MOD (class only), six comparisons
// @verif fns=eval::ops::{apply_binary,numeric_arith,numeric_cmp,numeric_eq}, numeric::to_f64
// @verif bound=every pair of f64 bit patterns; operator concrete per call site
real_pair!(ops_lreal_lreal, 10, u64, |x| Value::LReal(f64::from_bits(x)), |x| f64::from_bits(x), 10, u64, |x| Value::LReal(f64::from_bits(x)), |x| f64::from_bits(x));

// @verif prop=C01,C02 kernel=K1 tiers=thorough timeout=1500 unwind=1
// @verif what=apply_binary DINT x REAL: integer operand promoted (exactly, through f64), result REAL
// @verif fns=eval::ops::{apply_binary,numeric_arith,numeric_cmp,numeric_eq}, numeric::to_f64
// @verif bound=every i32 and every f32 bit pattern; operator concrete per call site
real_pair!(ops_dint_real, 3, i32, |x| Value::DInt(x), |x| x as f64, 9, u32, |x| Value::Real(f32::from_bits(x)), |x| f32::from_bits(x) as f64);

// @verif prop=C01,C02 kernel=K1 tiers=thorough timeout=1500 unwind=1
// @verif what=apply_binary REAL x LREAL: result LREAL
// @verif fns=eval::ops::{apply_binary,numeric_arith,numeric_cmp,numeric_eq}, numeric::to_f64
// @verif bound=every f32 and f64 bit pattern; operator concrete per call site
real_pair!(ops_real_lreal, 9, u32, |x| Value::Real(f32::from_bits(x)), |x| f32::from_bits(x) as f64, 10, u64, |x| Value::LReal(f64::from_bits(x)), |x| f64::from_bits(x));
