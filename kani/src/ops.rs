//! Operator kernels shared by C01 (no panic / no static-class error on accepted operand types)
//! and C02 (differential against an independent IEC reference in mathematical integers).
//!
//! DESIGN Rule 1: every `Value` handed to the real code has a concrete tag per call site; the
//! operator is symbolic, the payloads are full-width symbolic.
use trust_runtime::error::RuntimeError;
use trust_runtime::eval::ops::{apply_binary, apply_unary, BinaryOp, UnaryOp};
use trust_runtime::value::{DateTimeProfile, Value};

include!("/verif/.work/generated/accept.rs");

pub fn op_from(k: u8) -> BinaryOp {
    match k {
        0 => BinaryOp::Add, 1 => BinaryOp::Sub, 2 => BinaryOp::Mul, 3 => BinaryOp::Div,
        4 => BinaryOp::Mod, 5 => BinaryOp::Pow, 6 => BinaryOp::And, 7 => BinaryOp::Or,
        8 => BinaryOp::Xor, 9 => BinaryOp::Eq, 10 => BinaryOp::Ne, 11 => BinaryOp::Lt,
        12 => BinaryOp::Le, 13 => BinaryOp::Gt, _ => BinaryOp::Ge,
    }
}

/// Static-class errors the checker should have excluded (property C01).
pub fn static_class(e: &RuntimeError) -> bool {
    matches!(
        e,
        RuntimeError::TypeMismatch
            | RuntimeError::UndefinedVariable(_)
            | RuntimeError::UndefinedFunction(_)
            | RuntimeError::UndefinedField(_)
            | RuntimeError::ConditionNotBool
            | RuntimeError::CaseSelectorType
            | RuntimeError::InvalidControlFlow
            | RuntimeError::InvalidArgumentCount { .. }
            | RuntimeError::InvalidArgumentName(_)
            | RuntimeError::UndefinedLabel(_)
    )
}

// ---- reference semantics for integer operands (docs/specs/05-expressions.md §6.1, IEC 61131-3)
// type index as in the generated table: 1=SINT 2=INT 3=DINT 4=LINT 5=USINT 6=UINT 7=UDINT 8=ULINT
pub fn int_range(t: usize) -> (i128, i128) {
    match t {
        1 => (i8::MIN as i128, i8::MAX as i128),
        2 => (i16::MIN as i128, i16::MAX as i128),
        3 => (i32::MIN as i128, i32::MAX as i128),
        4 => (i64::MIN as i128, i64::MAX as i128),
        5 => (0, u8::MAX as i128),
        6 => (0, u16::MAX as i128),
        7 => (0, u32::MAX as i128),
        _ => (0, u64::MAX as i128),
    }
}
pub fn is_signed(t: usize) -> bool { t >= 1 && t <= 4 }

#[derive(Clone, Copy, PartialEq, Eq)]
pub enum Ref {
    Int(usize, i128),
    Bool(bool),
    Overflow,
    DivZero,
    ModZero,
    /// the documents define no meaning (mixed signed/unsigned, negative integer exponent, logical op on integers)
    Undefined,
}

pub fn ref_int(op: u8, tl: usize, a: i128, tr: usize, b: i128) -> Ref {
    if is_signed(tl) != is_signed(tr) {
        return Ref::Undefined;
    }
    // "Widest INT type" of the two operands (same signedness chain)
    let t = if tl >= tr { tl } else { tr };
    let (lo, hi) = int_range(t);
    let exact: Option<i128> = match op {
        0 => Some(a + b),
        1 => Some(a - b),
        2 => a.checked_mul(b),
        3 => { if b == 0 { return Ref::DivZero; } Some(a / b) }
        4 => { if b == 0 { return Ref::ModZero; } Some(a % b) }
        5 => { if b < 0 { return Ref::Undefined; } a.checked_pow(b as u32) }
        6 | 7 | 8 => return Ref::Undefined,
        9 => return Ref::Bool(a == b),
        10 => return Ref::Bool(a != b),
        11 => return Ref::Bool(a < b),
        12 => return Ref::Bool(a <= b),
        13 => return Ref::Bool(a > b),
        _ => return Ref::Bool(a >= b),
    };
    match exact {
        Some(v) if v >= lo && v <= hi => Ref::Int(t, v),
        _ => Ref::Overflow,
    }
}

/// Decode a runtime integer result into (type index, mathematical value).
pub fn int_of(v: &Value) -> Option<(usize, i128)> {
    match v {
        Value::SInt(x) => Some((1, *x as i128)),
        Value::Int(x) => Some((2, *x as i128)),
        Value::DInt(x) => Some((3, *x as i128)),
        Value::LInt(x) => Some((4, *x as i128)),
        Value::USInt(x) => Some((5, *x as i128)),
        Value::UInt(x) => Some((6, *x as i128)),
        Value::UDInt(x) => Some((7, *x as i128)),
        Value::ULInt(x) => Some((8, *x as i128)),
        _ => None,
    }
}

/// |v| <= 8 or within 2 of either end of the type's range.
pub fn small_or_extreme(v: i128, t: usize) -> bool {
    let (lo, hi) = int_range(t);
    (v >= -8 && v <= 8) || v <= lo + 2 || v >= hi - 2
}

/// All C01/C02 obligations for one integer x integer application (result inspected by reference).
pub fn check_int(k: u8, tl: usize, a: i128, tr: usize, b: i128, r: &Result<Value, RuntimeError>) {
    let m = ref_int(k, tl, a, tr, b);
    let accepted = ACCEPT_BIN[k as usize][tl][tr];
    // ---- C01: an accepted operand-type triple never yields a static-class error
    #[cfg(feature = "c01")]
    if accepted {
        if let Err(e) = r {
            if static_class(e) {
                if is_signed(tl) != is_signed(tr) && (a < 0 || b < 0) {
                    assert!(false, "C01: KF-mixed-sign: negative signed operand combined with an unsigned operand yields TypeMismatch");
                } else if k == 5 && b < 0 {
                    assert!(false, "C01: KF-pow-negative-exponent: integer ** negative integer yields TypeMismatch");
                } else {
                    assert!(false, "C01: static-class error on operand types the checker accepts");
                }
            }
        }
    }
    // ---- C02: value, type and fault agree with the reference
    #[cfg(feature = "c02")]
    match m {
        Ref::Undefined => {}
        Ref::Int(t, v) => match r {
            Ok(val) => {
                let got = int_of(val);
                assert!(got.is_some(), "C02: integer operation produced a non-integer value");
                let (gt, gv) = got.unwrap();
                assert!(gt == t, "C02: result type differs from the widest operand type");
                assert!(gv == v, "C02: result value differs from exact integer arithmetic");
            }
            Err(_) => assert!(false, "C02: fault raised where the reference computes a value"),
        },
        Ref::Bool(bv) => match r {
            Ok(Value::Bool(g)) => assert!(*g == bv, "C02: comparison result differs from the reference"),
            _ => assert!(false, "C02: comparison did not produce a BOOL"),
        },
        Ref::Overflow => assert!(matches!(r, Err(RuntimeError::Overflow)), "C02: missing or wrong fault where the reference overflows"),
        Ref::DivZero => assert!(matches!(r, Err(RuntimeError::DivisionByZero)), "C02: division by zero not reported"),
        Ref::ModZero => assert!(matches!(r, Err(RuntimeError::ModuloByZero)), "C02: modulo by zero not reported"),
    }
    kani::cover!(matches!(m, Ref::Int(_, _)) || matches!(m, Ref::Bool(true)));
    kani::cover!(matches!(m, Ref::Overflow) || matches!(m, Ref::Bool(false)) || matches!(m, Ref::DivZero));
}

/// One real call with a CONCRETE operator (DESIGN: a symbolic operator costs the sum of all arms).
macro_rules! call_int {
    ($op:ident, $k:expr, $lv:ident, $li:expr, $a:expr, $rv:ident, $ri:expr, $b:expr) => {{
        let profile = DateTimeProfile::default();
        let r = apply_binary(BinaryOp::$op, Value::$lv($a), Value::$rv($b), &profile);
        check_int($k, $li, $a as i128, $ri, $b as i128, &r);
        std::mem::forget(r);
    }};
}

macro_rules! int_addsub {
    ($name:ident, $lv:ident, $lt:ty, $li:expr, $rv:ident, $rt:ty, $ri:expr) => {
        #[kani::proof]
        fn $name() {
            let a: $lt = kani::any();
            let b: $rt = kani::any();
            if kani::any() { call_int!(Add, 0, $lv, $li, a, $rv, $ri, b); } else { call_int!(Sub, 1, $lv, $li, a, $rv, $ri, b); }
        }
    };
}
macro_rules! int_cmp {
    ($name:ident, $lv:ident, $lt:ty, $li:expr, $rv:ident, $rt:ty, $ri:expr) => {
        #[kani::proof]
        fn $name() {
            let a: $lt = kani::any();
            let b: $rt = kani::any();
            let k: u8 = kani::any();
            match k {
                9 => call_int!(Eq, 9, $lv, $li, a, $rv, $ri, b),
                10 => call_int!(Ne, 10, $lv, $li, a, $rv, $ri, b),
                11 => call_int!(Lt, 11, $lv, $li, a, $rv, $ri, b),
                12 => call_int!(Le, 12, $lv, $li, a, $rv, $ri, b),
                13 => call_int!(Gt, 13, $lv, $li, a, $rv, $ri, b),
                _ => call_int!(Ge, 14, $lv, $li, a, $rv, $ri, b),
            }
        }
    };
}
macro_rules! int_mul {
    ($name:ident, $lv:ident, $lt:ty, $li:expr, $rv:ident, $rt:ty, $ri:expr) => {
        #[kani::proof]
        fn $name() {
            let a: $lt = kani::any();
            let b: $rt = kani::any();
            // stated bound: one operand full width, the other small (|v|<=8) or within 2 of a range end
            kani::assume(small_or_extreme(a as i128, $li) || small_or_extreme(b as i128, $ri));
            call_int!(Mul, 2, $lv, $li, a, $rv, $ri, b);
        }
    };
}
macro_rules! int_divmod64 {
    ($name:ident, $lv:ident, $lt:ty, $li:expr, $rv:ident, $rt:ty, $ri:expr) => {
        #[kani::proof]
        fn $name() {
            let a: $lt = kani::any();
            let b: $rt = kani::any();
            // 32/64-bit operands: symbolic 128-bit division by a full-width divisor does not finish (probed: >450 s for DINT); divisor restricted
            kani::assume(small_or_extreme(b as i128, $ri));
            if kani::any() { call_int!(Div, 3, $lv, $li, a, $rv, $ri, b); } else { call_int!(Mod, 4, $lv, $li, a, $rv, $ri, b); }
        }
    };
}
macro_rules! int_divmod32 {
    ($name:ident, $lv:ident, $lt:ty, $li:expr, $rv:ident, $rt:ty, $ri:expr) => {
        #[kani::proof]
        fn $name() {
            let a: $lt = kani::any();
            let b: $rt = kani::any();
            kani::assume(small_or_extreme(a as i128, $li) || small_or_extreme(b as i128, $ri));
            if kani::any() { call_int!(Div, 3, $lv, $li, a, $rv, $ri, b); } else { call_int!(Mod, 4, $lv, $li, a, $rv, $ri, b); }
        }
    };
}
macro_rules! int_pow {
    ($name:ident, $lv:ident, $lt:ty, $li:expr, $rv:ident, $rt:ty, $ri:expr) => {
        #[kani::proof]
        fn $name() {
            let a: $lt = kani::any();
            let b: $rt = kani::any();
            // stated bound: base small or extreme, exponent in [-1, 4]
            kani::assume(small_or_extreme(a as i128, $li));
            kani::assume((b as i128) >= -1 && (b as i128) <= 4);
            call_int!(Pow, 5, $lv, $li, a, $rv, $ri, b);
        }
    };
}

include!("ops_list.rs");
