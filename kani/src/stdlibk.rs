//! Standard-function kernels (C01: never panic; C02: IEC 61131-3 semantics of the pure standard functions).
//! The functions take `&[Value]`: no `Value` is moved, which keeps these harnesses cheap.
use trust_runtime::error::RuntimeError;
use trust_runtime::stdlib::bit::verif_export::{rol_x, ror_x, shl_x, shr_x, not_x};
use trust_runtime::stdlib::numeric::verif_export::abs_x;
use trust_runtime::value::Value;

macro_rules! shift_case {
    ($v:ident, $t:ty, $w:expr) => {{
        let x: $t = kani::any();
        let n: i32 = kani::any();
        let args = [Value::$v(x), Value::DInt(n)];
        let k: u8 = kani::any();
        let r = match k % 4 { 0 => shl_x(&args), 1 => shr_x(&args), 2 => rol_x(&args), _ => ror_x(&args) };
        #[cfg(feature = "c02")]
        if n >= 0 {
            let w: u32 = $w;
            let c = n as u32;
            let expect: $t = match k % 4 {
                0 => if c >= w { 0 } else { x << c },
                1 => if c >= w { 0 } else { x >> c },
                2 => x.rotate_left(c % w),
                _ => x.rotate_right(c % w),
            };
            assert!(matches!(&r, Ok(Value::$v(y)) if *y == expect), "C02: SHL/SHR/ROL/ROR differs from the IEC definition (zero fill / rotation within the operand width)");
        }
        kani::cover!(n >= 0 && (n as u32) % $w == 0 && k % 4 == 2);
        kani::cover!(n > 70);
        std::mem::forget(r);
        std::mem::forget(args);
    }};
}

// @verif prop=C01,C02 kernel=K5 tiers=quick,thorough timeout=1500 unwind=1 mem=12
// @verif what=SHL SHR ROL ROR on BYTE/WORD/DWORD/LWORD with any DINT count: never panic (shift amounts), and for N >= 0 the result is the IEC zero-fill shift / rotation within the operand width
// @verif fns=stdlib::bit::{shl,shr,rol,ror,shift}, stdlib::helpers::{bit_value,mask_for,bit_value_to_result,to_i64}
// @verif bound=every operand value of the four bit-string types, every i32 shift count
#[kani::proof]
fn stdlib_shift_rotate() {
    let t: u8 = kani::any();
    match t % 4 {
        0 => shift_case!(Byte, u8, 8), 1 => shift_case!(Word, u16, 16), 2 => shift_case!(DWord, u32, 32), _ => shift_case!(LWord, u64, 64),
    }
}

macro_rules! abs_case {
    ($v:ident, $t:ty) => {{
        let x: $t = kani::any();
        let args = [Value::$v(x)];
        let r = abs_x(&args);
        #[cfg(feature = "c02")]
        {
            if x == <$t>::MIN { assert!(matches!(&r, Err(RuntimeError::Overflow)), "C02: ABS of the most negative value must fault with Overflow"); }
            else { assert!(matches!(&r, Ok(Value::$v(y)) if *y == if x < 0 { -x } else { x }), "C02: ABS differs from |x|"); }
        }
        kani::cover!(x == <$t>::MIN);
        kani::cover!(x == -3);
        std::mem::forget(r);
        std::mem::forget(args);
    }};
}

// @verif prop=C01,C02 kernel=K5 tiers=quick,thorough timeout=1500 unwind=1 mem=12
// @verif what=ABS on SINT/INT/DINT/LINT: never panics, |x| with the operand's type, Overflow at the most negative value
// @verif fns=stdlib::numeric::abs
// @verif bound=every operand value of the four signed integer types
#[kani::proof]
fn stdlib_abs_signed() {
    let t: u8 = kani::any();
    match t % 4 { 0 => abs_case!(SInt, i8), 1 => abs_case!(Int, i16), 2 => abs_case!(DInt, i32), _ => abs_case!(LInt, i64) }
}

// (probed, not registered: MIN/MAX/LIMIT through stdlib::selection exhaust 12 GB - coerce_to_common clones every
//  operand `Value`; outside the claim.)

// =====================================================================================
// Type conversion functions (*_TO_*, TRUNC_*)
// =====================================================================================
use trust_hir::TypeId;
use trust_runtime::stdlib::conversions::verif_export::convert_x;

macro_rules! int_conv {
    ($sv:ident, $st:ty, $tid:ident, $tv:ident, $tt:ty) => {{
        let x: $st = kani::any();
        let v = Value::$sv(x);
        let r = convert_x(&v, TypeId::$tid, false);
        let fits = (x as i128) >= (<$tt>::MIN as i128) && (x as i128) <= (<$tt>::MAX as i128);
        #[cfg(feature = "c02")]
        {
            if fits { assert!(matches!(&r, Ok(Value::$tv(y)) if (*y as i128) == (x as i128)), "C02: integer conversion changed a representable value or its result type"); }
            else { assert!(matches!(&r, Err(RuntimeError::Overflow)), "C02: integer conversion of an unrepresentable value must fault with Overflow"); }
        }
        kani::cover!(fits);
        std::mem::forget(r);
        std::mem::forget(v);
    }};
}

// @verif prop=C01,C02 kernel=K5 tiers=quick,thorough timeout=1800 unwind=1 mem=12
// @verif what=integer-to-integer conversions (<src>_TO_<dst>): a representable value is converted exactly with the destination type, every other value faults with Overflow; never a panic or a silent wrap
// @verif fns=stdlib::conversions::{dispatch::apply_conversion,convert_with_mode,convert_value}, conversions::numeric::{convert_to_int,signed_int_from_i128,unsigned_int_from_u64}
// @verif bound=every source value for 10 (source, destination) pairs covering narrowing, widening, signed->unsigned and unsigned->signed
#[kani::proof]
fn stdlib_convert_int_to_int() {
    let k: u8 = kani::any();
    match k % 10 {
        0 => int_conv!(LInt, i64, INT, Int, i16), 1 => int_conv!(DInt, i32, SINT, SInt, i8),
        2 => int_conv!(LInt, i64, ULINT, ULInt, u64), 3 => int_conv!(ULInt, u64, LINT, LInt, i64),
        4 => int_conv!(ULInt, u64, USINT, USInt, u8), 5 => int_conv!(Int, i16, UDINT, UDInt, u32),
        6 => int_conv!(SInt, i8, LINT, LInt, i64), 7 => int_conv!(UDInt, u32, DINT, DInt, i32),
        8 => int_conv!(UInt, u16, INT, Int, i16), _ => int_conv!(DInt, i32, UINT, UInt, u16),
    }
}

macro_rules! real_conv {
    ($tid:ident, $tv:ident, $tt:ty, $lo:expr, $hi_excl:expr) => {{
        // lo <= t < hi_excl (both exactly representable in f64) <=> the truncated value fits the type
        let bits: u64 = kani::any();
        let x = f64::from_bits(bits);
        let v = Value::LReal(x);
        let trunc: bool = kani::any();
        let r = convert_x(&v, TypeId::$tid, trunc);
        #[cfg(feature = "c02")]
        {
            if !x.is_finite() {
                assert!(matches!(&r, Err(RuntimeError::Overflow)), "C02: conversion of NaN/infinity must fault with Overflow");
            } else if x >= $hi_excl + 1.0 || x <= $lo - 1.0 {
                assert!(matches!(&r, Err(RuntimeError::Overflow)), "C02: real-to-integer conversion of a value outside the destination range must fault with Overflow");
            } else if x > $lo && x < $hi_excl - 1.0 {
                match &r {
                    Ok(Value::$tv(y)) => {
                        let d = (*y as f64) - x;
                        if x.abs() < 4.0e15 { assert!(d > -1.0 && d < 1.0, "C02: real-to-integer conversion is off by one or more"); }
                        if trunc && x.abs() < 4.0e15 { assert!((*y as f64).abs() <= x.abs(), "C02: TRUNC rounded away from zero"); }
                    }
                    _ => assert!(false, "C02: real-to-integer conversion of a representable value failed or changed the result type"),
                }
            }
        }
        kani::cover!(x.is_finite() && x > 1.0e30);
        kani::cover!(matches!(&r, Ok(_)));
        std::mem::forget(r);
        std::mem::forget(v);
    }};
}

// @verif prop=C01,C02 kernel=K5 tiers=quick,thorough timeout=2400 unwind=1 mem=16
// @verif what=LREAL to integer conversions (TO_<int> with rounding and TRUNC_<int>): never panic; NaN, infinities and values outside the destination range fault with Overflow (no silent wrap through 'as u64'); values inside the range convert to within 1 of the operand, TRUNC toward zero
// @verif fns=stdlib::conversions::numeric::{convert_to_int,real_to_int,signed_int_from_i128,unsigned_int_from_u64}, stdlib::helpers::round_ties_to_even
// @verif bound=every f64 bit pattern; destinations USINT, DINT, ULINT, LINT; both modes
#[kani::proof]
fn stdlib_convert_lreal_to_int() {
    let k: u8 = kani::any();
    match k % 4 {
        0 => real_conv!(USINT, USInt, u8, 0.0f64, 256.0f64),
        1 => real_conv!(DINT, DInt, i32, -2147483648.0f64, 2147483648.0f64),
        2 => real_conv!(ULINT, ULInt, u64, 0.0f64, 18446744073709551616.0f64),
        _ => real_conv!(LINT, LInt, i64, -9223372036854775808.0f64, 9223372036854775808.0f64),
    }
}

// =====================================================================================
// String functions: index arithmetic on (L, P) arguments of any integer magnitude
// =====================================================================================
use smol_str::SmolStr;
use trust_runtime::stdlib::string::verif_export::mid_x;

macro_rules! str_fn_harness {
    ($name:ident, |$l:ident, $p:ident| $args:expr, $f:ident) => {
        #[kani::proof]
        fn $name() {
            let $l: i64 = kani::any();
            let $p: i64 = kani::any();
            let args = $args;
            let r = $f(&args);
            kani::cover!($l == i64::MAX && $p == 2);
            kani::cover!(r.is_ok());
            std::mem::forget(r);
            std::mem::forget(args);
        }
    };
}

// @verif prop=C01 kernel=K5 tiers=quick,thorough timeout=2400 unwind=1 mem=16 loops=new_inline:26,new:26,from_utf8:6,run_utf8_validation:6,memcmp:6,compare_bytes:6,Iterator:6,extend:6,clone:6,to_vec:6
// @verif what=MID('abc', L, P) with length and position arguments of ANY LINT magnitude never panics (index arithmetic start + length)
// @verif fns=stdlib::string::mid
// @verif bound=the string 'abc' (probed: a symbolic string with five functions in one harness exhausts 16 GB), L and P every i64
str_fn_harness!(stdlib_string_mid_no_panic, |l, p| [Value::String(SmolStr::new_inline("abc")), Value::LInt(l), Value::LInt(p)], mid_x);

// (probed, not registered: the same harness for DELETE and REPLACE exhausts 16 GB - they build the result in a Vec<u8>;
//  the identical `start + length` expression in those functions was repaired together with MID's.)
