//! Standard-function kernels (C01: never panic; C02: IEC 61131-3 semantics of the pure standard functions).
//! The functions take `&[Value]`: no `Value` is moved, which keeps these harnesses cheap.
use trust_runtime::error::RuntimeError;
use trust_runtime::stdlib::bit::verif_export::{rol_x, ror_x, shl_x, shr_x, not_x};
use trust_runtime::stdlib::numeric::verif_export::abs_x;
use trust_runtime::value::Value;

macro_rules! shift_case {
    ($v:ident, $t:ty, $w:expr) => {{
        let x: $t = kani::any();
        let n: i32 = kani::any();
        let args = [Value::$v(x), Value::DInt(n)];
        let k: u8 = kani::any();
        let r = match k % 4 { 0 => shl_x(&args), 1 => shr_x(&args), 2 => rol_x(&args), _ => ror_x(&args) };
        #[cfg(feature = "c02")]
        if n >= 0 {
            let w: u32 = $w;
            let c = n as u32;
            let expect: $t = match k % 4 {
                0 => if c >= w { 0 } else { x << c },
                1 => if c >= w { 0 } else { x >> c },
                2 => x.rotate_left(c % w),
                _ => x.rotate_right(c % w),
            };
            assert!(matches!(&r, Ok(Value::$v(y)) if *y == expect), "C02: SHL/SHR/ROL/ROR differs from the IEC definition (zero fill / rotation within the operand width)");
        }
        kani::cover!(n >= 0 && (n as u32) % $w == 0 && k % 4 == 2);
        kani::cover!(n > 70);
        std::mem::forget(r);
        std::mem::forget(args);
    }};
}

// @verif prop=C01,C02 kernel=K5 tiers=quick,thorough tiers_C02=thorough timeout=1500 unwind=1 mem=12
// @verif what=SHL SHR ROL ROR on BYTE/WORD/DWORD/LWORD with any DINT count: never panic (shift amounts), and for N >= 0 the result is the IEC zero-fill shift / rotation within the operand width
// @verif fns=stdlib::bit::{shl,shr,rol,ror,shift}, stdlib::helpers::{bit_value,mask_for,bit_value_to_result,to_i64}
// @verif bound=every operand value of the four bit-string types, every i32 shift count
#[kani::proof]
fn stdlib_shift_rotate() {
    let t: u8 = kani::any();
    match t % 4 {
        0 => shift_case!(Byte, u8, 8), 1 => shift_case!(Word, u16, 16), 2 => shift_case!(DWord, u32, 32), _ => shift_case!(LWord, u64, 64),
    }
}

macro_rules! abs_case {
    ($v:ident, $t:ty) => {{
        let x: $t = kani::any();
        let args = [Value::$v(x)];
        let r = abs_x(&args);
        #[cfg(feature = "c02")]
        {
            if x == <$t>::MIN { assert!(matches!(&r, Err(RuntimeError::Overflow)), "C02: ABS of the most negative value must fault with Overflow"); }
            else { assert!(matches!(&r, Ok(Value::$v(y)) if *y == if x < 0 { -x } else { x }), "C02: ABS differs from |x|"); }
        }
        kani::cover!(x == <$t>::MIN);
        kani::cover!(x == -3);
        std::mem::forget(r);
        std::mem::forget(args);
    }};
}

// @verif prop=C01,C02 kernel=K5 tiers=quick,thorough timeout=1500 unwind=1 mem=12
// @verif what=ABS on SINT/INT/DINT/LINT: never panics, |x| with the operand's type, Overflow at the most negative value
// @verif fns=stdlib::numeric::abs
// @verif bound=every operand value of the four signed integer types
#[kani::proof]
fn stdlib_abs_signed() {
    let t: u8 = kani::any();
    match t % 4 { 0 => abs_case!(SInt, i8), 1 => abs_case!(Int, i16), 2 => abs_case!(DInt, i32), _ => abs_case!(LInt, i64) }
}

// (probed, not registered: MIN/MAX/LIMIT through stdlib::selection exhaust 12 GB - coerce_to_common clones every
//  operand `Value`; outside the claim.)

// =====================================================================================
// Type conversion functions (*_TO_*, TRUNC_*)
// =====================================================================================
use trust_hir::TypeId;
use trust_runtime::stdlib::conversions::verif_export::convert_x;

macro_rules! int_conv {
    ($sv:ident, $st:ty, $tid:ident, $tv:ident, $tt:ty) => {{
        let x: $st = kani::any();
        let v = Value::$sv(x);
        let r = convert_x(&v, TypeId::$tid, false);
        let fits = (x as i128) >= (<$tt>::MIN as i128) && (x as i128) <= (<$tt>::MAX as i128);
        #[cfg(feature = "c02")]
        {
            if fits { assert!(matches!(&r, Ok(Value::$tv(y)) if (*y as i128) == (x as i128)), "C02: integer conversion changed a representable value or its result type"); }
            else { assert!(matches!(&r, Err(RuntimeError::Overflow)), "C02: integer conversion of an unrepresentable value must fault with Overflow"); }
        }
        kani::cover!(fits);
        std::mem::forget(r);
        std::mem::forget(v);
    }};
}

// @verif prop=C01,C02 kernel=K5 tiers=quick,thorough tiers_C02=thorough timeout=1800 unwind=1 mem=12
// @verif what=integer-to-integer conversions (<src>_TO_<dst>): a representable value is converted exactly with the destination type, every other value faults with Overflow; never a panic or a silent wrap
// @verif fns=stdlib::conversions::{dispatch::apply_conversion,convert_with_mode,convert_value}, conversions::numeric::{convert_to_int,signed_int_from_i128,unsigned_int_from_u64}
// @verif bound=every source value for 10 (source, destination) pairs covering narrowing, widening, signed->unsigned and unsigned->signed
#[kani::proof]
fn stdlib_convert_int_to_int() {
    let k: u8 = kani::any();
    match k % 10 {
        0 => int_conv!(LInt, i64, INT, Int, i16), 1 => int_conv!(DInt, i32, SINT, SInt, i8),
        2 => int_conv!(LInt, i64, ULINT, ULInt, u64), 3 => int_conv!(ULInt, u64, LINT, LInt, i64),
        4 => int_conv!(ULInt, u64, USINT, USInt, u8), 5 => int_conv!(Int, i16, UDINT, UDInt, u32),
        6 => int_conv!(SInt, i8, LINT, LInt, i64), 7 => int_conv!(UDInt, u32, DINT, DInt, i32),
        8 => int_conv!(UInt, u16, INT, Int, i16), _ => int_conv!(DInt, i32, UINT, UInt, u16),
    }
}

macro_rules! real_conv {
    ($tid:ident, $tv:ident, $tt:ty, $lo:expr, $hi_excl:expr) => {{
        // lo <= t < hi_excl (both exactly representable in f64) <=> the truncated value fits the type
        let bits: u64 = kani::any();
        let x = f64::from_bits(bits);
        let v = Value::LReal(x);
        let trunc: bool = kani::any();
        let r = convert_x(&v, TypeId::$tid, trunc);
        #[cfg(feature = "c02")]
        {
            if !x.is_finite() {
                assert!(matches!(&r, Err(RuntimeError::Overflow)), "C02: conversion of NaN/infinity must fault with Overflow");
            } else if x >= $hi_excl + 1.0 || x < $lo - 1.0 || (x <= $lo - 1.0 && $lo - 1.0 != $lo) {
                // (for LINT, lo - 1.0 rounds to lo = -2^63, which IS representable: only values strictly below it overflow)
                assert!(matches!(&r, Err(RuntimeError::Overflow)), "C02: real-to-integer conversion of a value outside the destination range must fault with Overflow");
            } else if x > $lo && x < $hi_excl - 1.0 {
                match &r {
                    Ok(Value::$tv(y)) => {
                        let d = (*y as f64) - x;
                        if x.abs() < 4.0e15 { assert!(d > -1.0 && d < 1.0, "C02: real-to-integer conversion is off by one or more"); }
                        if trunc && x.abs() < 4.0e15 { assert!((*y as f64).abs() <= x.abs(), "C02: TRUNC rounded away from zero"); }
                    }
                    _ => assert!(false, "C02: real-to-integer conversion of a representable value failed or changed the result type"),
                }
            }
        }
        kani::cover!(x.is_finite() && x > 1.0e30);
        kani::cover!(matches!(&r, Ok(_)));
        std::mem::forget(r);
        std::mem::forget(v);
    }};
}

// @verif prop=C01,C02 kernel=K5 tiers=quick,thorough tiers_C02=thorough timeout=2400 unwind=1 mem=16
// @verif what=LREAL to integer conversions (TO_<int> with rounding and TRUNC_<int>): never panic; NaN, infinities and values outside the destination range fault with Overflow (no silent wrap through 'as u64'); values inside the range convert to within 1 of the operand, TRUNC toward zero
// @verif fns=stdlib::conversions::numeric::{convert_to_int,real_to_int,signed_int_from_i128,unsigned_int_from_u64}, stdlib::helpers::round_ties_to_even
// @verif bound=every f64 bit pattern; destinations USINT, DINT, ULINT, LINT; both modes
#[kani::proof]
fn stdlib_convert_lreal_to_int() {
    let k: u8 = kani::any();
    match k % 4 {
        0 => real_conv!(USINT, USInt, u8, 0.0f64, 256.0f64),
        1 => real_conv!(DINT, DInt, i32, -2147483648.0f64, 2147483648.0f64),
        2 => real_conv!(ULINT, ULInt, u64, 0.0f64, 18446744073709551616.0f64),
        _ => real_conv!(LINT, LInt, i64, -9223372036854775808.0f64, 9223372036854775808.0f64),
    }
}

// =====================================================================================
// String functions: index arithmetic on (L, P) arguments of any integer magnitude
// =====================================================================================
use smol_str::SmolStr;
use trust_runtime::stdlib::string::verif_export::mid_x;

macro_rules! str_fn_harness {
    ($name:ident, |$l:ident, $p:ident| $args:expr, $f:ident) => {
        #[kani::proof]
        fn $name() {
            let $l: i64 = kani::any();
            let $p: i64 = kani::any();
            let args = $args;
            let r = $f(&args);
            kani::cover!($l == i64::MAX && $p == 2);
            kani::cover!(r.is_ok());
            std::mem::forget(r);
            std::mem::forget(args);
        }
    };
}

// @verif prop=C01 kernel=K5 tiers=quick,thorough timeout=2400 unwind=1 mem=16 loops=new_inline:26,new:26,from_utf8:6,run_utf8_validation:6,memcmp:6,compare_bytes:6,Iterator:6,extend:6,clone:6,to_vec:6
// @verif what=MID('abc', L, P) with length and position arguments of ANY LINT magnitude never panics (index arithmetic start + length)
// @verif fns=stdlib::string::mid
// @verif bound=the string 'abc' (probed: a symbolic string with five functions in one harness exhausts 16 GB), L and P every i64
str_fn_harness!(stdlib_string_mid_no_panic, |l, p| [Value::String(SmolStr::new_inline("abc")), Value::LInt(l), Value::LInt(p)], mid_x);

// (probed, not registered: the same harness for DELETE and REPLACE exhausts 16 GB - they build the result in a Vec<u8>;
//  the identical `start + length` expression in those functions was repaired together with MID's.)

// =====================================================================================
// Array element addressing (C02-K2): row-major offset, bounds fault exactly outside [lo, hi]
// =====================================================================================
use trust_runtime::eval::expr::verif_exports::access::array_offset_x;

// @verif prop=C01,C02 kernel=K2 tiers=quick,thorough timeout=1800 unwind=1 mem=12 loops=array_offset:4,Iterator:4,Rev:4,Zip:4,next_back:4
// @verif what=array_offset for 1- and 2-dimensional arrays: IndexOutOfBounds exactly when an index is outside its [lower, upper], otherwise the row-major offset (last dimension contiguous), always below the element count; never a panic
// @verif fns=eval::expr::access::{array_offset,index_to_i64}
// @verif bound=lower bounds in [-1000, 1000], dimension lengths 1..=4 (arrays that can be allocated), indices any DINT resp. LINT
#[kani::proof]
fn stdlib_array_offset_row_major() {
    let (lo1, lo2): (i64, i64) = (kani::any(), kani::any());
    let (n1, n2): (i64, i64) = (kani::any(), kani::any());
    kani::assume(lo1 >= -1000 && lo1 <= 1000 && lo2 >= -1000 && lo2 <= 1000 && n1 >= 1 && n1 <= 4 && n2 >= 1 && n2 <= 4);
    let (hi1, hi2) = (lo1 + n1 - 1, lo2 + n2 - 1);
    let i1: i32 = kani::any();
    let i2: i64 = kani::any();
    if kani::any() {
        let dims = [(lo1, hi1)];
        let idx = [Value::DInt(i1)];
        let r = array_offset_x(&dims, &idx);
        let inside = (i1 as i64) >= lo1 && (i1 as i64) <= hi1;
        #[cfg(feature = "c02")]
        {
            if inside { assert!(matches!(&r, Ok(o) if *o as i64 == (i1 as i64) - lo1), "C02: 1-D array offset is not index - lower"); }
            else { assert!(matches!(&r, Err(RuntimeError::IndexOutOfBounds { .. })), "C02: out-of-bounds index must fault with IndexOutOfBounds"); }
        }
        kani::cover!(inside && n1 == 4);
        std::mem::forget(r); std::mem::forget(idx);
    } else {
        let dims = [(lo1, hi1), (lo2, hi2)];
        let idx = [Value::DInt(i1), Value::LInt(i2)];
        let r = array_offset_x(&dims, &idx);
        let inside = (i1 as i64) >= lo1 && (i1 as i64) <= hi1 && i2 >= lo2 && i2 <= hi2;
        #[cfg(feature = "c02")]
        {
            if inside {
                let expect = ((i1 as i64) - lo1) * n2 + (i2 - lo2);
                assert!(matches!(&r, Ok(o) if *o as i64 == expect && (*o as i64) < n1 * n2), "C02: 2-D array offset is not row-major");
            } else { assert!(matches!(&r, Err(RuntimeError::IndexOutOfBounds { .. })), "C02: out-of-bounds index must fault with IndexOutOfBounds"); }
        }
        kani::cover!(inside && n1 == 3 && n2 == 4);
        kani::cover!(!inside);
        std::mem::forget(r); std::mem::forget(idx);
    }
}

// =====================================================================================
// BCD conversions
// =====================================================================================
use trust_runtime::stdlib::conversions::verif_export::bcd_x;

macro_rules! bcd_case {
    ($uv:ident, $ut:ty, $utid:ident, $bv:ident, $bt:ty, $btid:ident, $limit:expr) => {{
        let x: $ut = kani::any();
        let v = Value::$uv(x);
        let enc = bcd_x(&v, TypeId::$btid, true);
        #[cfg(feature = "c02")]
        {
            if (x as u128) < $limit {
                match &enc {
                    Ok(Value::$bv(bits)) => {
                        let packed = Value::$bv(*bits);
                        let dec = bcd_x(&packed, TypeId::$utid, false);
                        assert!(matches!(&dec, Ok(Value::$uv(y)) if *y == x), "C02: BCD_TO(TO_BCD(x)) differs from x");
                        // every nibble is a decimal digit
                        let mut b = *bits as u64; let mut ok = true; let mut i = 0;
                        while i < 16 { if (b & 0xF) > 9 { ok = false; } b >>= 4; i += 1; }
                        assert!(ok, "C02: TO_BCD produced a nibble above 9");
                        std::mem::forget(dec);
                    }
                    _ => assert!(false, "C02: TO_BCD of a value that fits the digit count failed"),
                }
            } else {
                assert!(matches!(&enc, Err(RuntimeError::Overflow)), "C02: TO_BCD of a value with too many digits must fault with Overflow");
            }
        }
        kani::cover!((x as u128) + 1 == $limit);
        kani::cover!((x as u128) >= $limit);
        std::mem::forget(enc);
        std::mem::forget(v);
    }};
}

// @verif prop=C01,C02 kernel=K5 tiers=quick,thorough tiers_C02=thorough timeout=2400 unwind=1 mem=12 loops=u64_to_bcd:18,bcd_to_u64:18,stdlibk:18,Iterator:18
// @verif what=TO_BCD / BCD_TO: values that fit the digit count round-trip exactly and every nibble is a decimal digit; values with too many digits fault with Overflow; never a panic
// @verif fns=stdlib::conversions::bcd::{to_bcd,from_bcd,u64_to_bcd,bcd_to_u64}
// @verif bound=every USINT->BYTE and UINT->WORD value
#[kani::proof]
fn stdlib_bcd_roundtrip() {
    // probed: with the 32- and 64-bit variants (8 and 16 divisions by 10 of a symbolic word) CBMC exhausts 12 GB
    if kani::any() { bcd_case!(USInt, u8, USINT, Byte, u8, BYTE, 100u128) } else { bcd_case!(UInt, u16, UINT, Word, u16, WORD, 10_000u128) }
}

// =====================================================================================
// Date / time construction functions
// =====================================================================================
use trust_runtime::stdlib::time::verif_export::{concat_date_x, concat_tod_x, day_of_week_x, div_time_x, mul_time_x};
use trust_runtime::value::{DateValue, Duration};

// @verif prop=C01 kernel=K5 tiers=quick,thorough timeout=1800 unwind=1 mem=12
// @verif what=CONCAT_DATE(YEAR, MONTH, DAY) and CONCAT_TOD(H, M, S, MS) with components of ANY LINT magnitude, DAY_OF_WEEK of any DATE: never panic (calendar arithmetic), out-of-range components fault with a value-dependent error
// @verif fns=stdlib::time::{concat_date,concat_tod,day_of_week,tod_components_to_nanos}, datetime::{days_from_civil,days_to_ticks,nanos_to_ticks}
// @verif bound=every i64 year/month/day resp. hour/minute/second/millisecond; every i64 DATE tick value
#[kani::proof]
fn stdlib_date_construction_no_panic() {
    let (a, b, c, d): (i64, i64, i64, i64) = (kani::any(), kani::any(), kani::any(), kani::any());
    let k: u8 = kani::any();
    match k % 3 {
        0 => {
            let args = [Value::LInt(a), Value::LInt(b), Value::LInt(c)];
            let r = concat_date_x(&args);
            if let Err(e) = &r { assert!(!crate::ops::static_class(e), "C01: CONCAT_DATE refuses a component with a static-class error"); }
            kani::cover!(r.is_ok());
            kani::cover!(a == i64::MAX && b == 1 && c == 1);
            std::mem::forget(r); std::mem::forget(args);
        }
        1 => {
            let args = [Value::LInt(a), Value::LInt(b), Value::LInt(c), Value::LInt(d)];
            let r = concat_tod_x(&args);
            if let Err(e) = &r { assert!(!crate::ops::static_class(e), "C01: CONCAT_TOD refuses a component with a static-class error"); }
            kani::cover!(r.is_ok());
            std::mem::forget(r); std::mem::forget(args);
        }
        _ => {
            let args = [Value::Date(DateValue::new(a))];
            let r = day_of_week_x(&args);
            if let Ok(Value::Int(w)) = &r { assert!(*w >= 0 && *w <= 6, "C01: DAY_OF_WEEK outside 0..=6"); }
            kani::cover!(r.is_ok());
            std::mem::forget(r); std::mem::forget(args);
        }
    }
}

// @verif prop=C01 kernel=K5 tiers=quick,thorough timeout=1800 unwind=1 mem=12
// @verif what=MUL_TIME / DIV_TIME of any TIME by any LINT or LREAL factor: never panic; a zero divisor or an unrepresentable result is a value-dependent fault
// @verif fns=stdlib::time::{mul_time,div_time}, stdlib::helpers::scale_time
// @verif bound=every i64 duration, every i64 factor and every f64 bit pattern factor
#[kani::proof]
fn stdlib_time_scaling_no_panic() {
    let t: i64 = kani::any();
    let k: u8 = kani::any();
    let r = match k % 4 {
        0 => { let args = [Value::Time(Duration::from_nanos(t)), Value::LInt(kani::any())]; let r = mul_time_x(&args); std::mem::forget(args); r }
        1 => { let args = [Value::Time(Duration::from_nanos(t)), Value::LInt(kani::any())]; let r = div_time_x(&args); std::mem::forget(args); r }
        2 => { let args = [Value::Time(Duration::from_nanos(t)), Value::LReal(f64::from_bits(kani::any()))]; let r = mul_time_x(&args); std::mem::forget(args); r }
        _ => { let args = [Value::Time(Duration::from_nanos(t)), Value::LReal(f64::from_bits(kani::any()))]; let r = div_time_x(&args); std::mem::forget(args); r }
    };
    if let Err(e) = &r { assert!(!crate::ops::static_class(e), "C01: TIME scaling refuses a factor with a static-class error"); }
    kani::cover!(r.is_ok());
    kani::cover!(r.is_err());
    std::mem::forget(r);
}

use trust_runtime::value::{DateTimeValue, LDateTimeValue};

// @verif prop=C01,C02 kernel=K5 tiers=quick,thorough timeout=1800 unwind=1 mem=12
// @verif what=DT_TO_DATE / DT_TO_TOD and LDT_TO_DATE / LDT_TO_LTOD for every DT / LDT value: never panic; the time-of-day part is inside one day (probed: additionally asserting date + time-of-day = original instant does not finish in 30 min - 64-bit division by the day length)
// @verif fns=stdlib::conversions::time::{convert_to_date,convert_to_tod,dt_ticks_to_days,dt_ticks_to_tod_ticks,ldt_nanos_to_days,ldt_nanos_to_tod_nanos}, datetime::{days_to_ticks,ticks_per_day}
// @verif bound=every i64 DT tick value (default profile: 1 ms ticks) and every i64 LDT nanosecond value
#[kani::proof]
fn stdlib_dt_split_in_range() {
    let x: i64 = kani::any();
    if kani::any() {
        let v = Value::Dt(DateTimeValue::new(x));
        let d = convert_x(&v, TypeId::DATE, false);
        let t = convert_x(&v, TypeId::TOD, false);
        #[cfg(feature = "c02")]
        if let (Ok(Value::Date(dd)), Ok(Value::Tod(tt))) = (&d, &t) {
            assert!(tt.ticks() >= 0 && tt.ticks() < 86_400_000, "C02: time-of-day part of a DT is outside one day");
        }
        kani::cover!(d.is_ok() && t.is_ok() && x < 0);
        std::mem::forget(d); std::mem::forget(t); std::mem::forget(v);
    } else {
        let v = Value::Ldt(LDateTimeValue::new(x));
        let d = convert_x(&v, TypeId::DATE, false);
        let t = convert_x(&v, TypeId::LTOD, false);
        #[cfg(feature = "c02")]
        if let (Ok(Value::Date(dd)), Ok(Value::LTod(tt))) = (&d, &t) {
            assert!(tt.nanos() >= 0 && tt.nanos() < 86_400_000_000_000, "C02: time-of-day part of an LDT is outside one day");
        }
        kani::cover!(d.is_ok() && t.is_ok() && x > 0);
        std::mem::forget(d); std::mem::forget(t); std::mem::forget(v);
    }
}

macro_rules! bits_to_int {
    ($sv:ident, $st:ty, $tid:ident, $tv:ident, $tt:ty) => {{
        let w: $st = kani::any();
        let v = Value::$sv(w);
        let r = convert_x(&v, TypeId::$tid, false);
        // binary transfer: the low bits of the bit string reinterpreted in the destination type
        #[cfg(feature = "c02")]
        assert!(matches!(&r, Ok(Value::$tv(y)) if *y == (w as $tt)), "C02: bit-string to integer conversion is not a binary transfer of the low bits");
        kani::cover!(matches!(&r, Ok(_)));
        std::mem::forget(r); std::mem::forget(v);
    }};
}
macro_rules! int_to_bits {
    ($sv:ident, $st:ty, $tid:ident, $tv:ident, $tt:ty) => {{
        let x: $st = kani::any();
        let v = Value::$sv(x);
        let r = convert_x(&v, TypeId::$tid, false);
        #[cfg(feature = "c02")]
        assert!(matches!(&r, Ok(Value::$tv(y)) if *y == (x as $tt)), "C02: integer to bit-string conversion is not a binary transfer of the low bits");
        kani::cover!(matches!(&r, Ok(_)));
        std::mem::forget(r); std::mem::forget(v);
    }};
}

// @verif prop=C01,C02 kernel=K5 tiers=quick,thorough tiers_C02=thorough timeout=1800 unwind=1 mem=12
// @verif what=bit-string <-> integer conversions (WORD_TO_INT, INT_TO_WORD, ...): binary transfer of the low bits (two's complement reinterpretation, masking when narrowing), never a panic or a fault
// @verif fns=stdlib::conversions::bitstring::{convert_to_bit_string,bit_string_to_int,integer_to_bit_string,unsigned_to_bit_string,sign_extend,mask_for}
// @verif bound=every source value for 10 (source, destination) pairs incl. same width, widening and narrowing
#[kani::proof]
fn stdlib_convert_bits_ints() {
    let k: u8 = kani::any();
    match k % 10 {
        0 => bits_to_int!(Word, u16, INT, Int, i16), 1 => bits_to_int!(Byte, u8, SINT, SInt, i8),
        2 => bits_to_int!(DWord, u32, DINT, DInt, i32), 3 => bits_to_int!(LWord, u64, LINT, LInt, i64),
        4 => bits_to_int!(LWord, u64, ULINT, ULInt, u64), 5 => bits_to_int!(DWord, u32, USINT, USInt, u8),
        6 => int_to_bits!(Int, i16, WORD, Word, u16), 7 => int_to_bits!(SInt, i8, BYTE, Byte, u8),
        8 => int_to_bits!(LInt, i64, DWORD, DWord, u32), _ => int_to_bits!(UDInt, u32, LWORD, LWord, u64),
    }
}
