#!/usr/bin/env python3
"""C10-K3: crash atomicity of FileRetainStore::store, decided by an SMT query over a file-system crash
model that is driven by the ORDER OF FILE-SYSTEM EFFECTS extracted from the current source.

 1. recogniser: reads FileRetainStore::store / write_bytes in /repo/crates/trust-runtime/src/retain.rs and
    extracts the ordered effect list, e.g. [create(P), write(P)] or [create(T), write(T), sync(T), rename(T,P)].
    Any fs::/File:: call it does not know makes the run INCONCLUSIVE.
 2. model (SMT-LIB2, bit-vectors; solved by z3 and cross-checked with cvc5):
      - two durable files P (the retain file) and T (any other path = temporary), each (exists, kind, k):
        kind in {OLD, NEW-PREFIX of length k}; contents OLD and NEW are symbolic byte strings (<= 4 bytes);
      - create(X): X exists, empty (NEW-PREFIX 0);  write(X): X = NEW-PREFIX(Ln) in the page cache,
        durable length any j <= Ln until sync(X);  sync(X): durable = cached;  rename(A,B): B := A
        atomically (durable content of B = durable content of A at crash time);
      - crash point c in 0..=n (c effects completed) and, inside a write, an arbitrary partial length;
      - after the crash P holds its DURABLE content. load(P) must equal OLD or NEW as a byte string.
    sat  => concrete (crash point, partial length) => replayed NATIVELY: /verif/native performs the same effect
    prefix on a temp dir with the real encoder's bytes and calls the real FileRetainStore::load.
 3. result dict for the driver.
"""
import json
import os
import re
import subprocess
import sys
import tempfile
import time

REPO = os.environ.get("VERIF_REPO", "/repo")
SRC = os.path.join(REPO, "crates/trust-runtime/src/retain.rs")
VERIF = os.path.dirname(os.path.dirname(os.path.abspath(__file__)))


class Unknown(Exception):
    pass


def fn_body(src, sig_re):
    m = re.search(sig_re, src)
    if not m:
        raise Unknown(f"function matching {sig_re!r} not found")
    i = src.index("{", m.end() - 1)
    depth = 0
    for j in range(i, len(src)):
        if src[j] == "{":
            depth += 1
        elif src[j] == "}":
            depth -= 1
            if depth == 0:
                return src[i + 1:j]
    raise Unknown("unbalanced braces")


def extract_effects():
    src = open(SRC).read()
    impl = src[src.index("impl FileRetainStore"):]
    store = fn_body(src[src.index("impl RetainStore for FileRetainStore"):], r"fn store\s*\(")
    if "Self::write_bytes(&self.path" not in store.replace("\n", " "):
        raise Unknown("store() no longer forwards to Self::write_bytes(&self.path, ..)")
    body = fn_body(impl, r"fn write_bytes\s*\(\s*path\s*:")
    # statements in source order; tokens we understand
    effects = []
    handles = {}   # variable -> file role (P or T)
    paths = {"path": "P"}
    pos = 0
    token = re.compile(
        r"let\s+(?:mut\s+)?(\w+)\s*=\s*(?:fs::)?File::create\(\s*&?(\w+)\s*\)"      # 1,2 create bound to var
        r"|let\s+(?:mut\s+)?(\w+)\s*=\s*([^;]*?);"                                    # 3,4 any other let: derived path?
        r"|(\w+)\s*\.\s*write_all\("                                                  # 5
        r"|(\w+)\s*\.\s*(sync_all|sync_data)\("                                       # 6,7
        r"|fs::rename\(\s*&?(\w+)\s*,\s*&?(\w+)\s*\)"                                 # 8,9
        r"|fs::write\(\s*&?(\w+)"                                                     # 10
        r"|(fs::\w+|File::\w+|OpenOptions)"                                           # 11 anything else
    )
    for m in token.finditer(body):
        if m.group(1):
            role = paths.get(m.group(2))
            if role is None:
                raise Unknown(f"File::create on unknown path expression {m.group(2)}")
            handles[m.group(1)] = role
            effects.append(("create", role))
        elif m.group(3):
            expr = m.group(4)
            if re.search(r"fs::|File::|OpenOptions", expr):
                raise Unknown(f"file-system call the recogniser does not know in: let {m.group(3)} = {expr[:60]}")
            # a value derived from `path` (or from another derived name) denotes some OTHER file: temporary
            if any(re.search(r"\b%s\b" % re.escape(k), expr) for k in list(paths)):
                paths[m.group(3)] = "T"
        elif m.group(5):
            role = handles.get(m.group(5))
            if role is None:
                raise Unknown(f"write_all on unknown handle {m.group(5)}")
            effects.append(("write", role))
        elif m.group(6):
            role = handles.get(m.group(6))
            if role is None:
                raise Unknown(f"sync on unknown handle {m.group(6)}")
            effects.append(("sync", role))
        elif m.group(8):
            a, b = paths.get(m.group(8)), paths.get(m.group(9))
            if a is None or b is None:
                raise Unknown("rename with unknown path expressions")
            effects.append(("rename", a, b))
        elif m.group(10):
            role = paths.get(m.group(10))
            if role is None:
                raise Unknown("fs::write on unknown path")
            effects += [("create", role), ("write", role)]
        elif m.group(11):
            raise Unknown(f"file-system call the recogniser does not know: {m.group(11)}")
    if not effects:
        raise Unknown("no file-system effect recognised in write_bytes")
    return effects


def smt_query(effects):
    """Returns SMT-LIB2 text. Unrolls the effect list; crash point and partial lengths are symbolic."""
    n = len(effects)
    L = []
    A = L.append
    A("(set-logic ALL)")
    A("(declare-const Lo (_ BitVec 8))")      # length of OLD (0 = no previous save -> P absent)
    A("(declare-const Ln (_ BitVec 8))")
    A("(declare-const old (_ BitVec 32))")    # up to 4 content bytes each
    A("(declare-const new (_ BitVec 32))")
    A("(assert (and (bvuge Lo #x01) (bvule Lo #x04) (bvuge Ln #x01) (bvule Ln #x04)))")
    A("(declare-const c (_ BitVec 8))")        # effects completed before the crash
    A(f"(assert (bvule c #x{n:02x}))")
    # state per step i: for X in P,T: ex (Bool), isold (Bool), clen (cached length of NEW prefix), dlen (durable length)
    def decl(i):
        for x in "PT":
            A(f"(declare-const ex{x}{i} Bool) (declare-const old{x}{i} Bool)")
            A(f"(declare-const cl{x}{i} (_ BitVec 8)) (declare-const dl{x}{i} (_ BitVec 8))")
    decl(0)
    A("(assert (and exP0 oldP0 (= clP0 #x00) (= dlP0 #x00)))")
    A("(assert (and (not exT0) (not oldT0) (= clT0 #x00) (= dlT0 #x00)))")
    for i, e in enumerate(effects):
        decl(i + 1)
        j = i + 1
        A(f"(declare-const part{j} (_ BitVec 8))")   # durable length reached by a write when not synced
        A(f"(assert (bvule part{j} Ln))")
        def keep(x):
            A(f"(assert (and (= ex{x}{j} ex{x}{i}) (= old{x}{j} old{x}{i}) (= cl{x}{j} cl{x}{i}) (= dl{x}{j} dl{x}{i})))")
        if e[0] == "create":
            x = e[1]
            A(f"(assert (and ex{x}{j} (not old{x}{j}) (= cl{x}{j} #x00) (= dl{x}{j} #x00)))")
            keep("T" if x == "P" else "P")
        elif e[0] == "write":
            x = e[1]
            # the property is about PROCESS death: a completed write_all is in the kernel's page cache and
            # survives; only a crash INSIDE the write (handled below) leaves a prefix. (For power loss the
            # visible length would be an arbitrary prefix until sync(X); not the property's quantifier.)
            A(f"(assert (and (= ex{x}{j} ex{x}{i}) (= old{x}{j} old{x}{i}) (= cl{x}{j} Ln) (= dl{x}{j} Ln) (= part{j} Ln)))")
            keep("T" if x == "P" else "P")
        elif e[0] == "sync":
            x = e[1]
            A(f"(assert (and (= ex{x}{j} ex{x}{i}) (= old{x}{j} old{x}{i}) (= cl{x}{j} cl{x}{i}) (= dl{x}{j} cl{x}{i})))")
            keep("T" if x == "P" else "P")
        elif e[0] == "rename":
            a, b = e[1], e[2]
            A(f"(assert (and (= ex{b}{j} ex{a}{i}) (= old{b}{j} old{a}{i}) (= cl{b}{j} cl{a}{i}) (= dl{b}{j} dl{a}{i})))")
            A(f"(assert (and (not ex{a}{j}) (not old{a}{j}) (= cl{a}{j} #x00) (= dl{a}{j} #x00)))")
    # crash inside effect c+1 when it is a write: durable length of that file may be any value in [dl_c, Ln]
    A("(declare-const exF Bool) (declare-const oldF Bool) (declare-const dlF (_ BitVec 8))")
    for i in range(n + 1):
        cond = f"(= c #x{i:02x})"
        if i < n and effects[i][0] == "write" and effects[i][1] == "P":
            A(f"(declare-const mid{i} (_ BitVec 8))")
            A(f"(assert (and (bvuge mid{i} dlP{i}) (bvule mid{i} Ln)))")
            A(f"(assert (=> {cond} (and (= exF exP{i}) (= oldF oldP{i}) (= dlF mid{i}))))")
        else:
            A(f"(assert (=> {cond} (and (= exF exP{i}) (= oldF oldP{i}) (= dlF dlP{i}))))")
    # bytes seen by load: OLD (length Lo) if oldF, else the first dlF bytes of NEW. mask(k) keeps the low k bytes.
    A("(define-fun mask ((k (_ BitVec 8))) (_ BitVec 32) (ite (= k #x00) #x00000000 (ite (= k #x01) #x000000ff (ite (= k #x02) #x0000ffff (ite (= k #x03) #x00ffffff #xffffffff)))))")
    A("(define-fun lenF () (_ BitVec 8) (ite oldF Lo dlF))")
    A("(define-fun bytesF () (_ BitVec 32) (ite oldF (bvand old (mask Lo)) (bvand new (mask dlF))))")
    A("(define-fun isOld () Bool (and (= lenF Lo) (= bytesF (bvand old (mask Lo)))))")
    A("(define-fun isNew () Bool (and (= lenF Ln) (= bytesF (bvand new (mask Ln)))))")
    # violation: the file is missing, or its bytes are neither OLD nor NEW
    A("(assert (or (not exF) (and (not isOld) (not isNew))))")
    A("(check-sat)")
    return "\n".join(L) + "\n"


def run_solver(cmd, text):
    t0 = time.time()
    p = subprocess.run(cmd, input=text, capture_output=True, text=True, timeout=300)
    out = p.stdout.strip()
    if "(error" in out or "(error" in p.stderr:
        return "error", out, time.time() - t0
    first = out.splitlines()[0] if out else ""
    return first, out, time.time() - t0


def parse_model(out):
    vals = {}
    for k, v in re.findall(r"\((\w+) (#x[0-9a-f]+|true|false)\)", out):
        vals[k] = (v == "true") if v in ("true", "false") else int(v[2:], 16)
    return vals


def native_replay(effects, model, workdir):
    """Perform the effect prefix on a temp dir with the real encoder's bytes, then call the real load."""
    exe = os.path.join(VERIF, ".work", "native-target", "debug", "verif-native")
    env = dict(os.environ, CARGO_TARGET_DIR=os.path.join(VERIF, ".work", "native-target"), CARGO_NET_OFFLINE="true")
    b = subprocess.run(["cargo", "build", "--offline", "-q"], cwd=os.path.join(VERIF, "native"), env=env,
                       capture_output=True, text=True)
    if b.returncode != 0:
        return {"ran": False, "detail": "native build failed: " + b.stderr[-400:]}
    spec = {"effects": [list(e) for e in effects], "crash": model.get("c", 0), "partial_fraction_num": model.get("dlF", 0),
            "partial_fraction_den": max(1, model.get("Ln", 1))}
    sp = os.path.join(workdir, "crash_spec.json")
    json.dump(spec, open(sp, "w"))
    p = subprocess.run([exe, "crash-replay", sp], capture_output=True, text=True)
    return {"ran": True, "rc": p.returncode, "stdout": p.stdout[-1500:], "spec": spec}


def main():
    t0 = time.time()
    res = {"harness": "smt::c10_crash_atomicity", "kernel": "K3", "status": "error", "detail": "", "failed": [],
           "covers": {"satisfied": 0, "unsat": 0, "list": []}, "n_checks": 0, "n_success": 0, "functions": [
               "retain::FileRetainStore::store", "retain::FileRetainStore::write_bytes", "retain::FileRetainStore::load (native replay)"],
           "solver_s": 0.0, "symex_s": 0.0, "vccs": 0, "rounds": []}
    try:
        effects = extract_effects()
    except Unknown as e:
        res["status"] = "inconclusive"
        res["detail"] = f"effect recogniser: {e}"
        print(json.dumps(res))
        return
    res["effects"] = [list(e) for e in effects]
    text = smt_query(effects)
    work = os.path.join(VERIF, ".work", "smt")
    os.makedirs(work, exist_ok=True)
    open(os.path.join(work, "c10_crash.smt2"), "w").write(text)
    z, zout, zt = run_solver(["/usr/bin/z3", "-in", "-smt2"], text)
    c, cout, ct = run_solver(["cvc5", "--lang", "smt2", "--produce-models"], text)
    res["solver_s"] = round(zt + ct, 3)
    res["n_checks"] = 1
    res["solvers"] = {"z3": z, "cvc5": c}
    # vacuity witness: the same model WITHOUT the violation assertion must be satisfiable
    wit = text.replace("(assert (or (not exF) (and (not isOld) (not isNew))))", "(assert (= c #x%02x))" % len(effects))
    w, _, wt = run_solver(["/usr/bin/z3", "-in", "-smt2"], wit)
    res["covers"]["list"].append({"desc": "model without the violation constraint is satisfiable (crash after the last effect)", "status": w})
    if w == "sat":
        res["covers"]["satisfied"] = 1
    else:
        res["covers"]["unsat"] = 1
    if z != c or z not in ("sat", "unsat"):
        res["status"] = "inconclusive"
        res["detail"] = f"solvers disagree or failed: z3={z} cvc5={c}"
    elif z == "unsat":
        res["status"] = "ok" if w == "sat" else "vacuous"
        res["n_success"] = 1
        res["detail"] = f"no crash point of {effects} leaves the retain file different from both the old and the new image"
    else:
        _, zout, _ = run_solver(["/usr/bin/z3", "-in", "-smt2"], text + "(get-value (c Lo Ln exF oldF dlF))\n")
        model = parse_model(zout)
        res["model"] = model
        rep = native_replay(effects, model, work)
        res["replay_native"] = rep
        path = os.path.join(VERIF, ".work", "replay", "c10_crash_atomicity.json")
        os.makedirs(os.path.dirname(path), exist_ok=True)
        json.dump({"effects": res["effects"], "model": model, "native": rep}, open(path, "w"), indent=1)
        res["replay"] = path
        if rep.get("ran") and rep.get("rc") == 1:
            res["status"] = "violation"
            res["failed"] = [{"function": "retain::FileRetainStore::write_bytes", "description":
                              f"crash after {model.get('c')} of {len(effects)} file-system effects leaves a retain file that load() neither reads as the old nor as the new snapshot",
                              "category": "crash_atomicity"}]
        else:
            res["status"] = "inconclusive"
            res["detail"] = "SMT counterexample did not reproduce natively: " + json.dumps(rep)[:400]
    res["wall_s"] = round(time.time() - t0, 2)
    print(json.dumps(res))


if __name__ == "__main__":
    main()
