#!/usr/bin/env bash
# Run once after a fresh restore, offline. Builds the Kani dependency graph of the external
# harness crate and the native table extractor against /repo's current tree (the checks rebuild
# incrementally afterwards; everything lives under /verif/.work, nothing is fetched).
set -euo pipefail
cd "$(dirname "$0")"
export CARGO_NET_OFFLINE=true
mkdir -p .work/logs .work/replay .work/generated evidence
[ -f .work/replay/trust_lsp_tests.rs ] || echo "// no replay pending" > .work/replay/trust_lsp_tests.rs
cp /repo/Cargo.lock kani/Cargo.lock
cp /repo/Cargo.lock extract/Cargo.lock
( cd extract && CARGO_TARGET_DIR=/verif/.work/extract-target cargo build --offline -q ) >/verif/.work/logs/setup_extract.log 2>&1 || { tail -30 /verif/.work/logs/setup_extract.log; exit 1; }
( cd kani && CARGO_TARGET_DIR=/verif/.work/kani-target cargo kani --only-codegen --features c04 --harness c04::c04_ctu_trace_5 --exact ) >/verif/.work/logs/setup.log 2>&1 || { tail -50 /verif/.work/logs/setup.log | cut -c1-300; exit 1; }
echo "setup ok"
