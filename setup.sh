#!/usr/bin/env bash
# Run once after a fresh restore, offline. Builds the Kani dependency graph of the external
# harness crate against /repo's current tree (the checks rebuild incrementally afterwards).
set -euo pipefail
cd "$(dirname "$0")"
export CARGO_NET_OFFLINE=true
mkdir -p .work/logs .work/replay evidence
cp /repo/Cargo.lock kani/Cargo.lock
cd kani
CARGO_TARGET_DIR=/verif/.work/kani-target cargo kani --only-codegen --features c04 --harness c04::c04_ctu_trace_5 --exact >/verif/.work/logs/setup.log 2>&1 || { tail -50 /verif/.work/logs/setup.log; exit 1; }
echo "setup ok"
