// NOT REGISTERED (probed: the single-change harness exhausts 24 GB in the solver; see DESIGN.md C14). Kept for a later, smaller attempt.
//! In-crate Kani harness for handlers/sync.rs (mounted as `handlers::sync::verif_harness`).
use super::apply_content_changes;
use tower_lsp::lsp_types::{Position, Range, TextDocumentContentChangeEvent};

/// LSP 3.17 reference: offset of (line, UTF-16 column); a column past the line end clamps to the line end;
/// `None` when the line does not exist. `inside_pair` reports a column that splits a surrogate pair.
fn ref_offset(s: &str, line: u32, character: u32) -> (Option<usize>, bool) {
    let mut cur_line = 0u32;
    let mut col = 0u32;
    let mut inside_pair = false;
    for (i, c) in s.char_indices() {
        if cur_line == line {
            if col == character { return (Some(i), false); }
            if c == '\n' { return (Some(i), false); }
            if c.len_utf16() == 2 && character == col + 1 { inside_pair = true; }
        }
        if c == '\n' { cur_line += 1; col = 0; } else { col += c.len_utf16() as u32; }
    }
    if cur_line == line { (Some(s.len()), inside_pair) } else { (None, inside_pair) }
}

// @verif prop=C14 kernel=K2 tiers=quick,thorough timeout=3000 mem=24
// @verif what=apply_content_changes with one ranged change: the resulting text equals prefix + new text + suffix cut at the UTF-16 positions of the LSP range (or the change is rejected when a position does not exist or start > end); never a panic (slicing on a non-boundary)
// @verif fns=trust_lsp::handlers::sync::apply_content_changes, lsp_utils::position_to_offset
// @verif bound=every valid UTF-8 document of <= 4 bytes, every range with lines and characters <= 4, replacement text = every valid UTF-8 string of <= 2 bytes
// @verif assume=neither range position splits a surrogate pair
#[kani::proof]
#[kani::unwind(8)]
fn c14_single_ranged_change_matches_utf16_reference() {
    const L: usize = 4;
    let bytes: [u8; L] = kani::any();
    let len: usize = kani::any();
    kani::assume(len <= L);
    let Ok(s) = core::str::from_utf8(&bytes[..len]) else { return; };
    let tb: [u8; 2] = kani::any();
    let tlen: usize = kani::any();
    kani::assume(tlen <= 2);
    let Ok(t) = core::str::from_utf8(&tb[..tlen]) else { return; };
    let (sl, sc, el, ec): (u32, u32, u32, u32) = (kani::any(), kani::any(), kani::any(), kani::any());
    kani::assume(sl <= 4 && sc <= 4 && el <= 4 && ec <= 4);
    let (so, sp) = ref_offset(s, sl, sc);
    let (eo, ep) = ref_offset(s, el, ec);
    kani::assume(!sp && !ep);
    let change = TextDocumentContentChangeEvent {
        range: Some(Range { start: Position { line: sl, character: sc }, end: Position { line: el, character: ec } }),
        range_length: None,
        text: t.to_string(),
    };
    let changes = [change];
    let got = apply_content_changes(s, &changes);
    match (so, eo) {
        (Some(a), Some(b)) if a <= b => {
            match &got {
                Some(g) => {
                    let gb = g.as_bytes();
                    assert!(gb.len() == a + tlen + (len - b), "C14: edited text has the wrong length");
                    let mut i = 0;
                    while i < gb.len() {
                        let expect = if i < a { bytes[i] } else if i < a + tlen { tb[i - a] } else { bytes[b + (i - a - tlen)] };
                        assert!(gb[i] == expect, "C14: edited text differs from the editor's text");
                        i += 1;
                    }
                }
                None => assert!(false, "C14: a valid ranged change was rejected"),
            }
        }
        _ => assert!(got.is_none(), "C14: a change with a non-existent or inverted range was applied"),
    }
    kani::cover!(got.is_some() && len == 4 && bytes[0] >= 0xF0);
    kani::cover!(got.is_none());
    std::mem::forget(got);
    std::mem::forget(changes);
}

/// reference application of one ranged change (UTF-16 positions) on `s`
fn ref_apply(s: &str, sl: u32, sc: u32, el: u32, ec: u32, t: &str) -> (Option<String>, bool) {
    let (so, sp) = ref_offset(s, sl, sc);
    let (eo, ep) = ref_offset(s, el, ec);
    match (so, eo) {
        (Some(a), Some(b)) if a <= b => {
            let mut out = String::with_capacity(s.len() + t.len());
            out.push_str(&s[..a]);
            out.push_str(t);
            out.push_str(&s[b..]);
            (Some(out), sp || ep)
        }
        _ => (None, sp || ep),
    }
}

// @verif prop=C14 kernel=K2 tiers=quick,thorough timeout=3000 mem=24
// @verif what=apply_content_changes with TWO ranged changes in one notification: the second range is interpreted on the text produced by the first (the evolving text), as the LSP specification requires
// @verif fns=trust_lsp::handlers::sync::apply_content_changes
// @verif bound=every ASCII/UTF-8 document of <= 3 bytes, two changes with lines and characters <= 3 and replacement texts of <= 1 byte (valid UTF-8)
// @verif assume=no range position splits a surrogate pair
#[kani::proof]
#[kani::unwind(8)]
fn c14_two_changes_apply_to_evolving_text() {
    const L: usize = 3;
    let bytes: [u8; L] = kani::any();
    let len: usize = kani::any();
    kani::assume(len <= L);
    let Ok(s) = core::str::from_utf8(&bytes[..len]) else { return; };
    let t1b: [u8; 1] = kani::any(); let t1l: usize = kani::any(); kani::assume(t1l <= 1);
    let t2b: [u8; 1] = kani::any(); let t2l: usize = kani::any(); kani::assume(t2l <= 1);
    let Ok(t1) = core::str::from_utf8(&t1b[..t1l]) else { return; };
    let Ok(t2) = core::str::from_utf8(&t2b[..t2l]) else { return; };
    let p: [u32; 8] = kani::any();
    let mut i = 0; while i < 8 { kani::assume(p[i] <= 3); i += 1; }
    let (mid, bad1) = ref_apply(s, p[0], p[1], p[2], p[3], t1);
    kani::assume(!bad1);
    let expect: Option<String> = match &mid {
        Some(m) => { let (fin, bad2) = ref_apply(m.as_str(), p[4], p[5], p[6], p[7], t2); kani::assume(!bad2); fin }
        None => None,
    };
    let mk = |a: u32, b: u32, c: u32, d: u32, t: &str| TextDocumentContentChangeEvent {
        range: Some(Range { start: Position { line: a, character: b }, end: Position { line: c, character: d } }),
        range_length: None, text: t.to_string() };
    let changes = [mk(p[0], p[1], p[2], p[3], t1), mk(p[4], p[5], p[6], p[7], t2)];
    let got = apply_content_changes(s, &changes);
    match (&got, &expect) {
        (Some(g), Some(e)) => assert!(g.as_bytes() == e.as_bytes(), "C14: the second change of a notification was not applied to the text produced by the first"),
        (None, None) => {}
        _ => assert!(false, "C14: acceptance of a two-change notification differs from the reference"),
    }
    kani::cover!(got.is_some() && t1l == 1 && len == 3);
    kani::cover!(got.is_none());
    std::mem::forget(got); std::mem::forget(expect); std::mem::forget(mid); std::mem::forget(changes);
}
