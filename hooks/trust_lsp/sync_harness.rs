// NOT REGISTERED (probed three times: UTF-8 documents <= 4 bytes, ASCII <= 3 bytes, ASCII <= 2 bytes with two changes - the solver runs out of memory at 24-26 GB each time; see DESIGN.md C14).
//! In-crate Kani harness for handlers/sync.rs (mounted as `handlers::sync::verif_harness`).
//! (A first version over arbitrary UTF-8 documents of <= 4 bytes exhausted 24 GB in the solver; this one is
//!  restricted to ASCII documents - the UTF-16 side of positions is covered by the lsp_utils harnesses - and keeps
//!  the reference on fixed byte arrays.)
use super::apply_content_changes;
use tower_lsp::lsp_types::{Position, Range, TextDocumentContentChangeEvent};

const CAP: usize = 4;

/// offset of (line, character) in the ASCII text buf[..len]; a column past the line end clamps to the line end
fn ref_offset(buf: &[u8; CAP], len: usize, line: u32, character: u32) -> Option<usize> {
    let mut cur_line = 0u32;
    let mut col = 0u32;
    let mut i = 0;
    while i < len {
        if cur_line == line && (col == character || buf[i] == b'\n') { return Some(i); }
        if buf[i] == b'\n' { cur_line += 1; col = 0; } else { col += 1; }
        i += 1;
    }
    if cur_line == line { Some(len) } else { None }
}

/// apply one ranged change on a fixed buffer; returns new length or None (rejected)
fn ref_apply(buf: &mut [u8; CAP], len: usize, p: [u32; 4], t: u8, tlen: usize) -> Option<usize> {
    let a = ref_offset(buf, len, p[0], p[1])?;
    let b = ref_offset(buf, len, p[2], p[3])?;
    if a > b { return None; }
    let old = *buf;
    let mut n = a;
    if tlen == 1 { buf[n] = t; n += 1; }
    let mut i = b;
    while i < len { buf[n] = old[i]; n += 1; i += 1; }
    Some(n)
}

// @verif prop=C14 kernel=K2 tiers=quick,thorough timeout=3000 mem=24
// @verif what=apply_content_changes with TWO ranged changes in one notification on an ASCII document: each change replaces exactly [start, end) with its text and the SECOND range is interpreted on the text produced by the first (the evolving text); inverted or non-existent ranges reject the notification; never a panic
// @verif fns=trust_lsp::handlers::sync::apply_content_changes, lsp_utils::position_to_offset
// @verif bound=every ASCII document of <= 2 bytes (incl. line feeds), two changes with lines and characters <= 2 and replacement texts of 0 or 1 ASCII byte
// @verif outside=non-ASCII documents in edit sequences (probed: 24 GB); the UTF-16 column arithmetic itself is covered by the lsp_utils harnesses
#[kani::proof]
#[kani::unwind(10)]
fn c14_two_changes_apply_to_evolving_text() {
    let mut buf: [u8; CAP] = kani::any();
    let len: usize = kani::any();
    kani::assume(len <= 2);
    let mut i = 0; while i < CAP { kani::assume(buf[i] < 0x80); i += 1; }
    let s = unsafe { core::str::from_utf8_unchecked(core::slice::from_raw_parts(buf.as_ptr(), len)) };
    let (t1, t2): (u8, u8) = (kani::any(), kani::any());
    let (l1, l2): (usize, usize) = (kani::any(), kani::any());
    kani::assume(t1 < 0x80 && t2 < 0x80 && l1 <= 1 && l2 <= 1);
    let p: [u32; 8] = kani::any();
    let mut i = 0; while i < 8 { kani::assume(p[i] <= 2); i += 1; }
    let t1a = [t1]; let t2a = [t2];
    let mk = |q: [u32; 4], t: &[u8; 1], l: usize| TextDocumentContentChangeEvent {
        range: Some(Range { start: Position { line: q[0], character: q[1] }, end: Position { line: q[2], character: q[3] } }),
        range_length: None,
        text: unsafe { core::str::from_utf8_unchecked(&t[..l]) }.to_string() };
    let changes = [mk([p[0], p[1], p[2], p[3]], &t1a, l1), mk([p[4], p[5], p[6], p[7]], &t2a, l2)];
    let got = apply_content_changes(s, &changes);
    // reference on a scratch copy
    let mut r = buf;
    let expect = match ref_apply(&mut r, len, [p[0], p[1], p[2], p[3]], t1, l1) {
        Some(n1) => ref_apply(&mut r, n1, [p[4], p[5], p[6], p[7]], t2, l2),
        None => None,
    };
    match (&got, expect) {
        (Some(g), Some(n)) => {
            let gb = g.as_bytes();
            assert!(gb.len() == n, "C14: edited text has the wrong length (second change not applied to the evolving text?)");
            let mut i = 0; while i < n { assert!(gb[i] == r[i], "C14: edited text differs from the editor's text"); i += 1; }
        }
        (None, None) => {}
        _ => assert!(false, "C14: acceptance of a two-change notification differs from the reference"),
    }
    kani::cover!(got.is_some() && l1 == 1 && len == 2 && p[5] > 0);
    kani::cover!(got.is_none());
    std::mem::forget(got); std::mem::forget(changes);
}
