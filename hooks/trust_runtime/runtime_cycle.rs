//! cfg(kani) export hook, mounted as `crate::runtime::cycle::verif_export`.
#![allow(missing_docs)]
use super::*;

/// the real `collect_ready_tasks`, result flattened to (task index, due_at nanoseconds)
pub fn collect_ready_tasks_x(rt: &mut Runtime) -> Result<Vec<(usize, i64)>, error::RuntimeError> {
    let ready = rt.collect_ready_tasks()?;
    Ok(ready.into_iter().map(|r| (r.index, r.due_at.as_nanos())).collect())
}
