//! cfg(kani) facade, mounted as `trust_runtime::eval::expr::verif_exports` (the `access` module is private).
#![allow(missing_docs)]
pub use super::access::verif_export as access;
