//! cfg(kani) export hook, mounted as `trust_runtime::retain::verif_export` by one
//! `#[cfg(kani)] #[path = "/verif/hooks/trust_runtime/retain.rs"] pub mod verif_export;` line.
//! Forwarding wrappers only: a child module may call its parent's private functions.
#![allow(missing_docs)]
use super::*;

/// decode one tagged value from `bytes`; returns the value and the number of bytes consumed
pub fn decode_value_bytes(bytes: &[u8]) -> Result<(Value, usize), RuntimeError> {
    let mut reader = RetainReader::new(bytes);
    let value = decode_value(&mut reader)?;
    Ok((value, reader.offset))
}

pub fn encode_value_vec(value: &Value) -> Result<Vec<u8>, RuntimeError> {
    let mut out = Vec::new();
    encode_value(&mut out, value)?;
    Ok(out)
}

pub fn decode_snapshot_bytes(bytes: &[u8]) -> Result<RetainSnapshot, RuntimeError> {
    decode_snapshot(bytes)
}

pub fn encode_snapshot_vec(snapshot: &RetainSnapshot) -> Result<Vec<u8>, RuntimeError> {
    encode_snapshot(snapshot)
}
