//! cfg(kani) export hook, mounted as `crate::eval::expr::access::verif_export`.
#![allow(missing_docs)]
use super::*;
pub fn array_offset_x(dimensions: &[(i64, i64)], indices: &[Value]) -> Result<usize, RuntimeError> {
    array_offset(dimensions, indices)
}
