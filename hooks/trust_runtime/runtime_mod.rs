//! cfg(kani) facade, mounted as `crate::runtime::verif_exports`.
#![allow(missing_docs)]
pub use super::core::verif_export as core;
pub use super::cycle::verif_export as cycle;
pub use super::io_subsystem::verif_export as io_subsystem;
