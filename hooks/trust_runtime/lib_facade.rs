//! cfg(kani) facade, mounted as `trust_runtime::verif_runtime` (the `runtime` module is private).
#![allow(missing_docs)]
pub use crate::runtime::verif_exports::*;
