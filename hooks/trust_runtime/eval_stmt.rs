//! cfg(kani) export hook, mounted as `trust_runtime::eval::stmt::verif_export`.
#![allow(missing_docs)]
use super::*;

pub fn coerce_loop_value_x(template: &Value, value: i64) -> Result<Value, RuntimeError> {
    coerce_loop_value(template, value)
}

pub fn int_value_x(value: Value) -> Result<i64, RuntimeError> {
    int_value(value)
}

pub fn is_unsigned_int_x(value: &Value) -> bool {
    is_unsigned_int(value)
}
