//! cfg(kani) export hook, mounted as `trust_runtime::control::verif_export`.
#![allow(missing_docs)]
use super::*;

/// required role for a request type without parameters
pub fn required_role_x(kind: &str) -> crate::security::AccessRole {
    required_role_for_control_request(kind, None)
}

/// required role for `config.set` with a params object holding exactly one key
pub fn required_role_config_set_one_key_x(key: &str) -> crate::security::AccessRole {
    let mut map = serde_json::Map::new();
    map.insert(key.to_string(), serde_json::Value::Null);
    let params = serde_json::Value::Object(map);
    required_role_for_control_request("config.set", Some(&params))
}

pub fn is_debug_request_x(kind: &str) -> bool {
    is_debug_request(kind)
}
