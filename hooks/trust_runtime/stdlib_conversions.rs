//! cfg(kani) export hook, mounted as `trust_runtime::stdlib::conversions::verif_export`.
#![allow(missing_docs)]
use super::*;
use trust_hir::TypeId;

/// `TO_<dst>` (round) or `TRUNC_<dst>` applied to one value, bypassing only the NAME parsing.
pub fn convert_x(value: &Value, dst: TypeId, trunc: bool) -> Result<Value, RuntimeError> {
    let spec = if trunc {
        spec::ConversionSpec::Trunc { src: None, dst }
    } else {
        spec::ConversionSpec::Convert { src: None, dst }
    };
    dispatch::apply_conversion(spec, core::slice::from_ref(value))
}

/// `TO_BCD_<dst>` (to_bcd = true) or `BCD_TO_<dst>` applied to one value.
pub fn bcd_x(value: &Value, dst: TypeId, to_bcd: bool) -> Result<Value, RuntimeError> {
    let spec = if to_bcd {
        spec::ConversionSpec::ToBcd { src: None, dst }
    } else {
        spec::ConversionSpec::BcdTo { src: None, dst }
    };
    dispatch::apply_conversion(spec, core::slice::from_ref(value))
}
