//! cfg(kani) export hook, mounted as `trust_runtime::bytecode::decode::verif_export`.
#![allow(missing_docs)]
use super::*;

pub fn validate_section_entries_x(file_len: usize, entries: &[SectionEntry]) -> Result<(), BytecodeError> {
    validate_section_entries(file_len, entries)
}

pub fn decode_section_data_x(major: u16, minor: u16, id: u16, payload: &[u8]) -> Result<SectionData, BytecodeError> {
    decode_section_data(BytecodeVersion { major, minor }, id, payload)
}

/// BytecodeReader kernel: one read of `width` bytes (1, 2, 4, 8; 0 = read_bytes(n)) at `cursor`.
/// Returns (value, new cursor) or the reader's error.
pub fn reader_read_x(data: &[u8], cursor: usize, width: u8, n: usize) -> Result<(u64, usize), BytecodeError> {
    let mut reader = BytecodeReader::new(data);
    if cursor > 0 {
        reader.read_bytes(cursor)?;
    }
    let v = match width {
        1 => reader.read_u8()? as u64,
        2 => reader.read_u16()? as u64,
        4 => reader.read_u32()? as u64,
        8 => reader.read_u64()?,
        _ => reader.read_bytes(n)?.len() as u64,
    };
    Ok((v, reader.pos()))
}
