//! cfg(kani) facade, mounted as `trust_runtime::bytecode::verif_exports`: makes the export hooks of the
//! private child modules `validate` and `decode` nameable from the external harness crate.
#![allow(missing_docs)]
pub use super::decode::verif_export as decode;
pub use super::validate::verif_export as validate;
