//! cfg(kani) export hook, mounted as `trust_runtime::bytecode::validate::verif_export`.
#![allow(missing_docs)]
use super::*;

/// validate_instruction_stream over `code` with an empty POU index and an empty type table
pub fn validate_instruction_stream_x(code: &[u8]) -> Result<(), BytecodeError> {
    let index = PouIndex { entries: Vec::new() };
    let types = TypeTable { offsets: Vec::new(), entries: Vec::new() };
    let r = validate_instruction_stream(&index, &types, 0, code);
    std::mem::forget(index);
    std::mem::forget(types);
    r
}

/// validate_const_payload for one constant of type `type_id` over a caller-built type table (empty string table)
pub fn validate_const_payload_x(types: &TypeTable, type_id: u32, payload: Vec<u8>) -> Result<(), BytecodeError> {
    let strings = StringTable { entries: Vec::new() };
    let entry = ConstEntry { type_id, payload };
    let r = validate_const_payload(&strings, types, &entry);
    std::mem::forget(strings);
    std::mem::forget(entry);
    r
}
