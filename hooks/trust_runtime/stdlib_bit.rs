//! cfg(kani) export hook, mounted as `trust_runtime::stdlib::bit::verif_export`.
#![allow(missing_docs)]
use super::*;
pub fn shl_x(args: &[Value]) -> Result<Value, RuntimeError> { shl(args) }
pub fn shr_x(args: &[Value]) -> Result<Value, RuntimeError> { shr(args) }
pub fn rol_x(args: &[Value]) -> Result<Value, RuntimeError> { rol(args) }
pub fn ror_x(args: &[Value]) -> Result<Value, RuntimeError> { ror(args) }
pub fn not_x(args: &[Value]) -> Result<Value, RuntimeError> { bit_not(args) }
pub fn and_x(args: &[Value]) -> Result<Value, RuntimeError> { bit_and(args) }
pub fn or_x(args: &[Value]) -> Result<Value, RuntimeError> { bit_or(args) }
pub fn xor_x(args: &[Value]) -> Result<Value, RuntimeError> { bit_xor(args) }
