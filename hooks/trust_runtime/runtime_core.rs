//! cfg(kani) export hook, mounted as `crate::runtime::core::verif_export`.
//! "Drive the unit, not the program": a minimal `Runtime` literal with an EMPTY type registry and an
//! EMPTY standard library (Runtime::new() performs ~130 + ~200 hash-map inserts, far outside CBMC's reach).
#![allow(missing_docs)]
use super::*;

pub fn minimal_runtime() -> Runtime {
    Runtime {
        profile: DateTimeProfile::default(),
        storage: VariableStorage::default(),
        registry: TypeRegistry::default(),
        io: IoSubsystem::new(),
        access: AccessMap::default(),
        stdlib: StandardLibrary::default(),
        debug: None,
        statement_index: IndexMap::new(),
        functions: IndexMap::new(),
        function_blocks: IndexMap::new(),
        classes: IndexMap::new(),
        interfaces: IndexMap::new(),
        programs: IndexMap::new(),
        globals: IndexMap::new(),
        tasks: Vec::new(),
        task_state: IndexMap::new(),
        task_thread_ids: IndexMap::new(),
        next_thread_id: 1,
        background_thread_id: None,
        current_time: Duration::ZERO,
        cycle_counter: 0,
        retain: RetainManager::default(),
        metrics: MetricsSubsystem::new(),
        watchdog: WatchdogSubsystem::new(),
        faults: FaultSubsystem::new(),
        execution_deadline: None,
    }
}

/// install a task together with an arbitrary scheduling state (bypasses register_task's initialisation)
pub fn put_task(rt: &mut Runtime, task: TaskConfig, state: TaskState) {
    rt.task_state.insert(task.name.clone(), state);
    rt.tasks.push(task);
}

pub fn task_state_of(rt: &Runtime, name: &str) -> Option<(bool, i64, u64)> {
    rt.task_state.get(name).map(|s| (s.last_single, s.last_run.as_nanos(), s.overrun_count))
}

pub fn set_time(rt: &mut Runtime, now: Duration) {
    rt.current_time = now;
}

pub fn storage_mut(rt: &mut Runtime) -> &mut VariableStorage {
    &mut rt.storage
}

pub fn is_faulted(rt: &Runtime) -> bool {
    rt.faults.is_faulted()
}

pub fn set_fault_policy(rt: &mut Runtime, policy: FaultPolicy) {
    rt.faults.set_policy(policy);
}
