//! cfg(kani) export hook, mounted as `trust_runtime::io::verif_export`.
#![allow(missing_docs)]
use super::*;

pub fn coerce_from_io_x(value: Value, target: TypeId) -> Result<Value, RuntimeError> {
    coerce_from_io(value, target)
}

pub fn coerce_to_io_x(value: Value, target: TypeId, size: IoSize) -> Result<Value, RuntimeError> {
    coerce_to_io(value, target, size)
}

pub fn expected_size_for_type_x(value_type: TypeId) -> Option<IoSize> {
    expected_size_for_type(value_type)
}
