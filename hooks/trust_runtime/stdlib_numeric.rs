//! cfg(kani) export hook, mounted as `trust_runtime::stdlib::numeric::verif_export`.
#![allow(missing_docs)]
use super::*;
pub fn abs_x(args: &[Value]) -> Result<Value, RuntimeError> { abs(args) }
