//! cfg(kani) export hook, mounted as `trust_runtime::stdlib::time::verif_export`.
#![allow(missing_docs)]
use super::*;
pub fn concat_date_x(args: &[Value]) -> Result<Value, RuntimeError> { concat_date(args) }
pub fn concat_tod_x(args: &[Value]) -> Result<Value, RuntimeError> { concat_tod(args) }
pub fn day_of_week_x(args: &[Value]) -> Result<Value, RuntimeError> { day_of_week(args) }
pub fn mul_time_x(args: &[Value]) -> Result<Value, RuntimeError> { mul_time(args) }
pub fn div_time_x(args: &[Value]) -> Result<Value, RuntimeError> { div_time(args) }
