//! cfg(kani) export hook, mounted as `crate::runtime::io_subsystem::verif_export`.
#![allow(missing_docs)]
use super::*;

/// Opaque handle so the `pub(super)` type does not leak.
pub struct IoSub(IoSubsystem);

pub fn new_subsystem() -> IoSub { IoSub(IoSubsystem::new()) }
pub fn resize(s: &mut IoSub, i: usize, o: usize, m: usize) { s.0.resize(i, o, m); }
pub fn add_driver(s: &mut IoSub, driver: Box<dyn IoDriver>) { s.0.add_driver("d", driver); }
pub fn set_safe_state(s: &mut IoSub, safe: IoSafeState) { s.0.set_safe_state(safe); }
pub fn apply_safe_state(s: &mut IoSub) -> Result<(), RuntimeError> { s.0.apply_safe_state() }
pub fn outputs(s: &IoSub) -> &[u8] { s.0.interface().outputs() }
pub fn interface_mut(s: &mut IoSub) -> &mut IoInterface { s.0.interface_mut() }
