//! cfg(kani) export hook, mounted as `trust_runtime::web::ide::verif_export`.
#![allow(missing_docs)]
use super::*;

/// normalize_workspace_path(path, allow_root = false): Ok(normalised) or Err(())
pub fn normalize_workspace_path_x(path: &str) -> Result<String, ()> {
    match normalize_workspace_path(path, false) {
        Ok(s) => Ok(s),
        Err(e) => {
            std::mem::forget(e);
            Err(())
        }
    }
}
