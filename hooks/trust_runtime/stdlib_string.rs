//! cfg(kani) export hook, mounted as `trust_runtime::stdlib::string::verif_export`.
#![allow(missing_docs)]
use super::*;
pub fn left_x(args: &[Value]) -> Result<Value, RuntimeError> { left(args) }
pub fn right_x(args: &[Value]) -> Result<Value, RuntimeError> { right(args) }
pub fn mid_x(args: &[Value]) -> Result<Value, RuntimeError> { mid(args) }
pub fn delete_x(args: &[Value]) -> Result<Value, RuntimeError> { delete(args) }
pub fn replace_x(args: &[Value]) -> Result<Value, RuntimeError> { replace(args) }
pub fn insert_x(args: &[Value]) -> Result<Value, RuntimeError> { insert(args) }
pub fn len_x(args: &[Value]) -> Result<Value, RuntimeError> { len(args) }
