//! cfg(kani) export hook, mounted as `trust_runtime::stdlib::selection::verif_export`.
#![allow(missing_docs)]
use super::*;
pub fn sel_x(args: &[Value]) -> Result<Value, RuntimeError> { sel(args) }
pub fn min_x(args: &[Value]) -> Result<Value, RuntimeError> { min(args) }
pub fn max_x(args: &[Value]) -> Result<Value, RuntimeError> { max(args) }
pub fn limit_x(args: &[Value]) -> Result<Value, RuntimeError> { limit(args) }
pub fn mux_x(args: &[Value]) -> Result<Value, RuntimeError> { mux(args) }
